"""C15 - attestations gathered from a genuine device verify end to end; any single
alteration makes gathering or verification fail.

Ledger: do_onboard -> do_attestation -> do_get_pubkeys -> do_verify_attestation against one
simulated genuine Ledger (real secp256k1 hierarchy issuer -> device -> attestation key,
endorsement scheme two).  SGX: do_attestation -> do_get_pubkeys -> do_verify_attestation against a
simulated SGX powHSM whose quote envelope is built from a real P-256 / X.509 hierarchy.
Then every single-point alteration of what the device returns and of the root of trust.
"""
import argparse
import atexit
import base64
import contextlib
import hashlib
import io
import json
import os
import shutil
import tempfile
import types

from cryptography.hazmat.primitives.asymmetric import utils as asym_utils

from ..framework import Check, Violation
from ..xplore import HarnessError, Stats
from ..env import Rng, patched
from ..att import layout as L, sgx as S, seams
from ..simdev.base import World
from ..simdev.attdev import (LedgerFactory, GenuineLedger, SgxPlatform, GenuineSgx,
                              ledger_seed, fw_der_signature, SIG_OPS)
from ..att import k1

PIN = "abcd1234"
UI_PAGE_SIZES = {1: 120, 2: 79, 3: 40, 4: 28}       # 109-byte UI message -> 1..4 pages
AUTH_LENS = [0, 1, 32, 1000]
CHAIN_LENS = [2, 3]
# boundary values for the bytes that directly follow a textual header / end a message
# (hex): single bytes, and two-byte beginnings that could continue the header's own grammar
EDGES = ["30", "39", "3a", "0a", "00", "07", "ff", "2e", "2e37", "2e30", "3a3a", "352e"]
UD_SPELLINGS = ["plain", "0x", "upper", "0x-upper"]

# field -> oracle class.  must-fail: a byte the device signed / committed to by a signed hash,
# a signature, a key of the chain, TBS or signature of a certificate, the root of trust.
LEDGER_FIELDS = [
    ("devkey.header", "must-fail"), ("devkey.pub", "must-fail"), ("devkey.sig", "must-fail"),
    ("devkey.lens", "open"), ("nonce.resp", "open"), ("ephemeral.resp", "open"),
    ("endo.pub", "must-fail"), ("endo.sig", "must-fail"),
    ("ui.apphash", "must-fail"), ("ui.msg", "must-fail"), ("ui.sig", "must-fail"),
    ("signer.sig", "must-fail"), ("signer.msg", "must-fail"), ("signer.env", "must-fail"),
    ("signer.apphash", "must-fail"),
] + [("pubkey.%d" % i, "must-fail") for i in range(6)] + [("root", "must-fail")]

SGX_ENV_FIELDS = [
    ("env.quote", "must-fail"), ("env.signature_len", "open"), ("env.signature", "must-fail"),
    ("env.attestation_key", "must-fail"), ("env.qe_report_body", "must-fail"),
    ("env.qe_report_body_signature", "must-fail"), ("env.qe_auth_size", "open"),
    ("env.qe_auth_data", "must-fail"), ("env.cert_type", "open"), ("env.cert_size", "open"),
    ("env.cert_data", "open"),            # PEM text level (armor, base64 characters)
    ("env.custom_message", "must-fail"), ("message", "must-fail"), ("both", "must-fail"),
    ("sig", "open"), ("apphash", "open"),
] + [("pubkey.%d" % i, "must-fail") for i in range(6)]


class _Operator:
    """stdin of do_onboard (sys.stdin.readline, input(), iteration): confirms, then re-plugs
    the device and presses Enter"""
    encoding = "utf-8"
    errors = "strict"
    closed = False

    def __iter__(self):
        return self

    def __next__(self):
        return self.readline()

    def read(self, n=-1):
        return self.readline()

    def isatty(self):
        return False

    def fileno(self):
        raise OSError("the operator has no file descriptor")

    def flush(self):
        pass

    def __init__(self, dev):
        self.dev = dev
        self.lines = 0

    def readline(self):
        self.lines += 1
        if self.lines == 1:
            return "yes\n"
        if self.lines == 2:
            self.dev.power_cycle()
            return "\n"
        _harness_fail("do_onboard read stdin a third time")


_HARNESS_FAILS = []


def _harness_fail(msg):
    """the code under test may swallow the exception: remember it (checked after each run)"""
    _HARNESS_FAILS.append(msg)
    raise HarnessError(msg)


def _no_getpass(*a, **k):
    _harness_fail("unexpected PIN prompt")


def ns(plat, **kw):
    d = dict(operation=None, pin=None, new_pin=None, any_pin=False, output_file_path=None,
             no_unlock=False, attestation_ud_source="https://public-node.rsk.co",
             attestation_certificate_file_path=None, root_authority=None, pubkeys_file_path=None,
             verbose=False)
    if plat == "ledger":
        d.update(no_exec=False, signer_authorization_file_path=None)
    else:
        d.update(sgx_port=7777, sgx_host="localhost")
    d.update(kw)
    return argparse.Namespace(**d)


def same_field(key, got, want):
    """file field vs the device's value: hex fields compared as bytes"""
    if key in ("name", "type", "signed_by") or not isinstance(got, str):
        return got == want
    try:
        return bytes.fromhex(got) == bytes.fromhex(want)
    except ValueError:
        return got == want


def same_keys(got, want):
    """public-keys file vs the device's keys: same paths, same points (any standard encoding)"""
    from ..att import k1 as _k1
    if not isinstance(got, dict) or set(got) != set(want):
        return False
    try:
        return all(_k1.uncompressed(bytes.fromhex(got[p])) == bytes.fromhex(want[p]) for p in want)
    except (ValueError, TypeError):
        return False


def flip(data, i, mask):
    return data[:i] + bytes([data[i] ^ mask]) + data[i + 1:]


class C15(Check):
    id = "C15"
    level = "exploration"
    rule = ("per simulated genuine device (Ledger: UI message in 1..4 pages x legacy/current signer "
            "framing; SGX: QE auth data 0,1,32,1000 bytes x PEM chain of 2,3 certificates): the "
            "unaltered end-to-end run, then one run per single-point alteration: one bit (thorough: "
            "each of two bits) in every byte (quick: every 4th byte of fields longer than 16 bytes; "
            "the number of bytes of DER signatures/certificates follows the seeded keys) of each "
            "signed message, "
            "signature, key, application hash, certificate (DER level and PEM text level), envelope "
            "framing field and public key answer, of the root of trust; page 'more' flags, a byte "
            "dropped from a page, an extra page; each wallet key answered with another path's key. "
            "Distinct = (platform, device configuration, "
            "altered field, oracle class, failing stage, exception class).")
    assumptions = [
        "devices are models written from the firmware sources (verif/simdev/attdev.py); wallet, "
        "device, attestation, issuer keys, hashes and blockchain state are seeded",
        "Ledger runs use the PIN given with -p; the operator answers 'yes' and re-plugs the device "
        "when asked (sys.stdin / input()); os.urandom called from any middleware frame or from a "
        "library below one, random/secrets names in admin.onboard and admin.dongle_admin, getpass and "
        "time.sleep are owned at library level (verif/att/seams.py)",
        "X.509 validity: reference instant = noon UTC of the current day (owned clock and real clocks "
        "agree within the one-day margins); certificates are generated around it",
        "the UD value is given as a 32-byte hex string (no Rootstock node)",
        "open (dont_care) alterations: length/type framing fields of answers and envelope, page "
        "flags, the unused nonce/ephemeral-key answers, the signature and code-hash answers the SGX "
        "command does not use, PEM armor / base64 text, DER framing and outer AlgorithmIdentifier of "
        "certificates, the third (root) certificate inside the envelope; for these only 'if "
        "accepted, then with exactly the device's values' is demanded",
        "an application hash answer (tweak) counts as must-fail: accepting it altered could only "
        "print a value that is not the device's",
    ]
    trusted_base = ["verif/simdev/attdev.py device models", "ecdsa (secp256k1 hierarchy)",
                    "cryptography/OpenSSL (P-256, X.509)", "verif/att/layout.py offset tables",
                    "/verif/shims/bitcoin (imported transitively)"]

    # ------------------------------------------------------------------------------------
    def prepare(self):
        from .. import harness
        import admin.onboard as ONB
        import admin.ledger_attestation as LA
        import admin.sgx_attestation as SA
        import admin.pubkeys as PK
        import admin.verify_ledger_attestation as VL
        import admin.verify_sgx_attestation as VS
        import admin.misc as MISC
        import admin.dongle_admin as DA
        import admin.attestation_utils as AU
        import admin.certificate_v2 as CV2
        import admin.certificate as CERT
        import admin.unlock as UNLOCK
        from comm.platform import Platform
        self.harness = harness
        # seams for the whole process: os.urandom (see seams._urandom), no network, X.509 clock
        seams.install_urandom()
        seams.install_no_network()
        self.m = types.SimpleNamespace(ONB=ONB, LA=LA, SA=SA, PK=PK, VL=VL, VS=VS, MISC=MISC, DA=DA,
                                       AU=AU, CV2=CV2, CERT=CERT, UNLOCK=UNLOCK,
                                       Platform=Platform)
        seams.install_clock(CV2, S.CLOCK)
        L.calibrate_docs()
        L.calibrate_firmware_order()
        S.calibrate_recorded_envelope()
        self.stride = 1 if self.thorough else 4
        self.factories = {lg: LedgerFactory(Rng("c15-ledger-%s" % lg), legacy_signer=lg)
                          for lg in (False, True)}
        self.platforms = {(a, c): SgxPlatform(Rng("c15-sgx-%d-%d" % (a, c)), a, c)
                          for a in AUTH_LENS for c in CHAIN_LENS}
        # devices whose UI and Signer report different versions, so that a version printed from
        # the wrong source shows; an enclave of another version
        for lg in (False, True):
            for ui_v, sg_v in (("5.4", "5.6"), ("5.6", "5.4"), ("5.2", "5.1")):
                self.factories[(lg, "v%s/%s" % (ui_v, sg_v))] = LedgerFactory(
                    Rng("c15-ledger-%s" % lg), legacy_signer=lg, ui_version=ui_v, signer_version=sg_v)
        self.platforms[(32, 3, "v5.6")] = SgxPlatform(Rng("c15-sgx-32-3"), 32, 3, version="5.6")
        # devices whose printed values start with 00 / a zero nibble / are all zero / all ff
        for prof in L.VALUE_PROFILES[1:]:
            for lg in (False, True):
                self.factories[(lg, prof)] = LedgerFactory(Rng("c15-ledger-%s" % lg),
                                                           legacy_signer=lg, profile=prof)
            self.platforms[(32, 3, prof)] = SgxPlatform(Rng("c15-sgx-32-3"), 32, 3, profile=prof)
        self.ud = Rng("c15-ud").nz_bytes(32)
        self.sig_shapes = self.find_signature_shapes()
        # wallets (last key varied) whose public-keys hash starts / ends with each boundary byte
        self.salts = {lg: self.find_salts(self.factories[lg]) for lg in (False, True)}
        base = "/dev/shm" if os.path.isdir("/dev/shm") else None
        self.dir = tempfile.mkdtemp(prefix="verif-c15-", dir=base)
        owner = os.getpid()

        def cleanup(d=self.dir):
            if os.getpid() == owner:
                shutil.rmtree(d, ignore_errors=True)
        atexit.register(cleanup)

    def find_signature_shapes(self):
        """UD values for which the quote signature of the (32, 3) platform has an r or s that
        starts 00 then a byte >= 80 / 00 then a byte < 80 / a byte >= 80 (thorough: 00 00): the
        encodings der_utils.c treats differently.  -> shape name -> UD value"""
        plat = self.platforms[(32, 3)]
        en = plat.enclave

        def shapes(v):
            out = set()
            if v[0] == 0 and v[1] == 0:
                out.add("0000")
            elif v[0] == 0:
                out.add("00hi" if v[1] & 0x80 else "00lo")
            elif v[0] & 0x80:
                out.add("hi")
            else:
                out.add("lo")
            return out
        need = {p + x for p in "rs" for x in ("00hi", "00lo", "hi", "lo")}
        if self.thorough:
            need.add("any0000")
        found = {}
        rng = Rng("c15-sigshape")
        n = 0
        while need:
            n += 1
            if n > 400000:
                raise HarnessError("signature shapes not found: %r" % sorted(need))
            ud = rng.bytes(32)
            rs = en.fields(plat.message(ud))["signature"]
            got = {"r" + x for x in shapes(rs[:32])} | {"s" + x for x in shapes(rs[32:])}
            if "r0000" in got or "s0000" in got:
                got.add("any0000")
            for g in got & need:
                need.discard(g)
                found[g] = ud
        return found

    def find_salts(self, fac):
        """salts of the last wallet key for which the device's public-keys hash starts / ends
        with each single boundary byte, or starts with '.' + digit"""
        seed = ledger_seed(fac, Rng("c15-seed").bytes(32))
        h = hashlib.sha256()
        for p in L.PATHS[:-1]:
            h.update(fac.key(b"wallet", seed + L.path_binary(p)).pub65)
        wanted = {"kh-first-2e3x": lambda dg: dg[0] == 0x2e and 0x30 <= dg[1] <= 0x39}
        for e in EDGES:
            if len(e) == 2:
                wanted["kh-first-" + e] = lambda dg, b=int(e, 16): dg[0] == b
                wanted["kh-last-" + e] = lambda dg, b=int(e, 16): dg[-1] == b
        salt_of = {}
        counter = [0]

        def candidate(n):
            # the derivation of LedgerFactory.key(b"wallet", seed + path + salt)
            counter[0] += 1
            salt = counter[0].to_bytes(4, "big")
            dg = hashlib.sha256(b"wallet" + fac.secret + seed + L.path_binary(L.PATHS[-1])
                                + salt).digest()
            salt_of[int.from_bytes(dg, "big") % (k1.N - 1) + 1] = salt
            return dg
        out = {"base": b""}
        for name, (d, _) in k1.search_last_key(h, candidate, wanted).items():
            out[name] = salt_of[d]
        return out

    def platform_of(self, cfg):
        if cfg.get("zone") is not None:
            # a platform whose certificates were issued an hour ago and last two more hours
            import datetime
            t0 = datetime.datetime.now(datetime.timezone.utc).replace(microsecond=0)
            key = ("zone", cfg["auth"], cfg["chain"])
            if key not in self.platforms or abs((self.platforms[key].t0 - t0).total_seconds()) > 600:
                pf = SgxPlatform(Rng("c15-sgx-zone-%d-%d" % (cfg["auth"], cfg["chain"])),
                                 cfg["auth"], cfg["chain"],
                                 window=(t0 - datetime.timedelta(hours=1),
                                         t0 + datetime.timedelta(hours=2)))
                pf.t0 = t0
                self.platforms[key] = pf
            return self.platforms[key]
        if cfg.get("values") is None:
            return self.platforms[(cfg["auth"], cfg["chain"])]
        return self.platforms[(cfg["auth"], cfg["chain"], cfg["values"])]

    def ud_for(self, cfg):
        if cfg.get("values") is not None and not cfg["values"].startswith("v"):
            return L.shape(self.ud, cfg["values"])
        if cfg.get("sigshape") is not None:
            return self.sig_shapes[cfg["sigshape"]]
        if cfg.get("ud") is None:
            return self.ud
        b = bytes.fromhex(cfg["ud"])
        return b + self.ud[len(b):-len(b)] + b

    def spell(self, ud, cfg):
        """the --attudsource argument in one of the spellings the tool accepts"""
        sp = cfg.get("udspell", "plain")
        hx = ud.hex().upper() if "upper" in sp else ud.hex()
        return ("0x" + hx) if sp.startswith("0x") else hx

    def bounds(self):
        return {"ledger_devices": "UI pages 1..4 x {legacy, current} signer framing",
                "sgx_devices": "QE auth data %r bytes x PEM chain %r certificates"
                % (AUTH_LENS, CHAIN_LENS),
                "alterations": "%s per byte, byte stride %d for fields > 16 bytes"
                % ("two bits" if self.thorough else "one bit", self.stride)}

    def alphabets(self):
        return {"ledger_fields": [f for f, _ in LEDGER_FIELDS] + ["pages", "pubkey-swap"],
                "sgx_fields": [f for f, _ in SGX_ENV_FIELDS] + ["cert-der.0..2", "root-der", "pages",
                                                                "pubkey-swap"]}

    def cases(self):
        cs = []
        for pages in (1, 2, 3, 4):
            for legacy in (False, True):
                cfg = {"pages": pages, "legacy": legacy}
                cs.append({"kind": "ledger", "cfg": cfg, "field": None})
                for e in EDGES:
                    cs.append({"kind": "ledger-edges", "cfg": cfg, "edge": e})
                for f, _ in LEDGER_FIELDS:
                    if legacy and f == "signer.env":
                        continue
                    cs.append({"kind": "ledger", "cfg": cfg, "field": f})
                cs.append({"kind": "ledger", "cfg": cfg, "field": "pages"})
                cs.append({"kind": "ledger", "cfg": cfg, "field": "pubkey-swap"})
                cs.append({"kind": "ledger", "cfg": cfg, "field": "sigalg"})
        for a in AUTH_LENS:
            for c in CHAIN_LENS:
                cfg = {"auth": a, "chain": c}
                cs.append({"kind": "sgx", "cfg": cfg, "field": None})
                cs.append({"kind": "sgx-edges", "cfg": cfg})
                for f, _ in SGX_ENV_FIELDS:
                    cs.append({"kind": "sgx", "cfg": cfg, "field": f})
                for i in range(c):
                    cs.append({"kind": "sgx", "cfg": cfg, "field": "cert-der.%d" % i})
                cs.append({"kind": "sgx", "cfg": cfg, "field": "root-der"})
                cs.append({"kind": "sgx", "cfg": cfg, "field": "pages"})
                cs.append({"kind": "sgx", "cfg": cfg, "field": "pubkey-swap"})
                cs.append({"kind": "sgx", "cfg": cfg, "field": "sigalg"})
        for prof in L.VALUE_PROFILES[1:]:
            cs.append({"kind": "value-shapes", "values": prof})
        for sp in UD_SPELLINGS:
            cs.append({"kind": "ud-spellings", "udspell": sp})
        cs.append({"kind": "signature-shapes"})
        cs.append({"kind": "versions"})
        cs.append({"kind": "regather"})
        for zone in seams.ZONES:
            cs.append({"kind": "sgx-zones", "zone": zone})
        return cs

    def replay(self, case, choices):
        return self.run_case(case, Stats())

    # ------------------------------------------------------------------------------------
    def masks(self, i):
        """one bit per byte (quick); two different bits per byte (thorough)"""
        m = [1 << (i % 8)]
        if self.thorough:
            m.append(1 << ((i + 3) % 8))
        return m

    def indices(self, n):
        if n <= 16 or self.stride == 1:
            return list(range(n))
        idx = list(range(0, n, self.stride))
        if idx[-1] != n - 1:
            idx.append(n - 1)
        return idx

    def run_case(self, case, stats):
        vs = []
        k = case["kind"]
        if k == "one":
            self.execute(case["plat"], case["cfg"], case.get("alter"), case.get("cls", "must-fail"),
                         stats, vs)
            return vs
        if k == "ledger-edges":
            # genuine devices whose UD value / iteration / keys hash start or end with a boundary
            # byte (the bytes next to the textual headers and at the end of the messages)
            for keys in sorted(self.salts[bool(case["cfg"]["legacy"])]):
                cfg = dict(case["cfg"], ud=case["edge"], keys=keys)
                self.execute("ledger", cfg, None, "genuine", stats, vs)
            return vs
        if k == "value-shapes":
            for legacy in (False, True):
                for pages in (1, 2, 3, 4):
                    self.execute("ledger", {"pages": pages, "legacy": legacy,
                                            "values": case["values"]}, None, "genuine", stats, vs)
            self.execute("sgx", {"auth": 32, "chain": 3, "values": case["values"]}, None,
                         "genuine", stats, vs)
            return vs
        if k == "regather":
            for legacy in (False, True):
                for pages in (1, 2, 3, 4):
                    self.execute("ledger", {"pages": pages, "legacy": legacy, "regather": True},
                                 None, "genuine", stats, vs)
            return vs
        if k == "versions":
            for key in sorted(kk for kk in self.factories if isinstance(kk, tuple)
                              and str(kk[1]).startswith("v")):
                for pages in (1, 2, 3, 4):
                    self.execute("ledger", {"pages": pages, "legacy": key[0], "values": key[1]},
                                 None, "genuine", stats, vs)
            self.execute("sgx", {"auth": 32, "chain": 3, "values": "v5.6"}, None, "genuine",
                         stats, vs)
            return vs
        if k == "signature-shapes":
            # genuine devices whose quote signature has each shape the firmware's DER encoder
            # distinguishes (every signature answer is encoded as der_utils.c does it)
            for shape in sorted(self.sig_shapes):
                self.execute("sgx", {"auth": 32, "chain": 3, "sigshape": shape}, None, "genuine",
                             stats, vs)
            return vs
        if k == "ud-spellings":
            # the UD source argument: plain / 0x-prefixed / upper case, for every value shape
            for prof in [None] + L.VALUE_PROFILES[1:]:
                extra = {"udspell": case["udspell"]}
                if prof is not None:
                    extra["values"] = prof
                for base in ({"pages": 2, "legacy": False}, {"pages": 1, "legacy": True}):
                    self.execute("ledger", dict(base, **extra), None, "genuine", stats, vs)
                self.execute("sgx", dict({"auth": 32, "chain": 3}, **extra), None, "genuine",
                             stats, vs)
            for e in ("00", "07"):
                self.execute("sgx", {"auth": 32, "chain": 3, "ud": e, "udspell": case["udspell"]},
                             None, "genuine", stats, vs)
            return vs
        if k == "sgx-zones":
            self.execute("sgx", {"auth": 32, "chain": 3, "zone": case["zone"]}, None, "genuine",
                         stats, vs)
            self.execute("sgx", {"auth": 1, "chain": 2, "zone": case["zone"]}, None, "genuine",
                         stats, vs)
            return vs
        if k == "sgx-edges":
            for e in EDGES:
                self.execute("sgx", dict(case["cfg"], ud=e), None, "genuine", stats, vs)
            # two genuine devices one after the other in one process, same file locations
            for other in sorted(k2 for k2 in self.platforms if len(k2) == 2
                                and isinstance(k2[0], int)):
                if other != (case["cfg"]["auth"], case["cfg"]["chain"]):
                    self.execute("sgx", {"auth": other[0], "chain": other[1]}, None, "genuine",
                                 stats, vs)
                    self.execute("sgx", case["cfg"], None, "genuine", stats, vs)
            return vs
        cfg, field = case["cfg"], case["field"]
        if field is None:
            self.execute(k, cfg, None, "genuine", stats, vs)
            return vs
        if field == "sigalg":
            # algebraic changes of a signature: (r, N-s), (N-r, s), (s, r), r / s re-encoded with a
            # superfluous leading zero.  Version 1 (libsecp256k1, strict DER, low s): all refused.
            # Version 2 (raw r || s in the envelope, python-ecdsa): (r, N-s) verifies as well --
            # ECDSA's own symmetry, which no statement about the code can exclude: dont_care.
            if k == "ledger":
                sigs = ["devkey.sig", "endo.sig", "ui.sig", "signer.sig"]
                for f in sigs:
                    for op in SIG_OPS:
                        self.execute(k, cfg, {"kind": "sigalg", "field": f, "op": op}, "must-fail",
                                     stats, vs)
            else:
                for f in ("env.signature", "env.qe_report_body_signature"):
                    for op in ("high-s", "neg-r", "swap"):
                        self.execute(k, cfg, {"kind": "sigalg", "field": f, "op": op},
                                     "open" if op == "high-s" else "must-fail", stats, vs)
                for op in SIG_OPS:
                    self.execute(k, cfg, {"kind": "sigalg", "field": "sig", "op": op}, "open",
                                 stats, vs)
            return vs
        if field == "pubkey-swap":
            for i in range(6):
                for j in range(6):
                    if i != j:
                        self.execute(k, cfg, {"kind": "swap-pubkey", "field": "pubkey-swap",
                                              "index": i, "with": j}, "must-fail", stats, vs)
            return vs
        if k == "ledger":
            base = self.execute(k, cfg, None, "genuine", Stats(), [])      # lengths of the parts
            if base is None:
                return vs
            if field == "pages":
                for alter, cls in self.page_alterations(["ui.msg"] + ([] if cfg["legacy"] else
                                                                     ["signer.msg", "signer.env"]),
                                                        base["page_counts"]):
                    self.execute(k, cfg, alter, cls, stats, vs)
                return vs
            cls = dict(LEDGER_FIELDS)[field]
            n = 65 if field == "root" else base["part_lens"].get(field, 0)
            for i in self.indices(n):
                for mask in self.masks(i):
                    alter = {"kind": "root" if field == "root" else "bit", "field": field,
                             "index": i, "mask": mask}
                    self.execute(k, cfg, alter, cls, stats, vs)
            return vs
        # sgx: the alterations follow a successful run on the same file locations
        if self.execute(k, cfg, None, "genuine", Stats(), []) is None:
            return vs
        plat = self.platform_of(cfg)
        f = plat.enclave.fields(plat.message(self.ud_for(cfg)))
        if field == "pages":
            counts = {"msg": (len(f["custom_message"]) + 78) // 79,
                      "env": (len(S.build_envelope(f)) + 78) // 79}
            for alter, cls in self.page_alterations(["msg", "env"], counts):
                self.execute(k, cfg, alter, cls, stats, vs)
            return vs
        if field.startswith("cert-der.") or field == "root-der":
            if field == "root-der":
                der, ci = plat.h.root_der, None
            else:
                ci = int(field.split(".")[1])
                der = plat.enclave.cert_ders[ci]
            reg = S.der_regions(der)
            for i in self.indices(len(der)):
                signed = reg["tbs"][0] <= i < reg["tbs"][1] or reg["sigval"][0] <= i < reg["sigval"][1]
                cls = "must-fail" if signed and (ci is None or ci < 2) else "open"
                for mask in self.masks(i):
                    alter = {"kind": "root-der" if ci is None else "cert-der", "cert": ci,
                             "index": i, "mask": mask, "field": field}
                    self.execute(k, cfg, alter, cls, stats, vs)
            return vs
        cls = dict(SGX_ENV_FIELDS)[field]
        if field.startswith("env."):
            s, e = S.regions(f)[field[4:]]
            n = e - s
        elif field in ("message", "both"):
            n = len(f["custom_message"])
        elif field == "sig":
            n = len(fw_der_signature(f["signature"]))
        elif field == "apphash":
            n = 32
        else:
            n = 65
        idx = self.indices(n)
        if field == "env.cert_data" and not self.thorough:
            idx = idx[::4]
        for i in idx:
            kind = "both" if field == "both" else "bit"
            for mask in self.masks(i):
                self.execute(k, cfg, {"kind": kind, "field": field, "index": i, "mask": mask},
                             cls, stats, vs)
        return vs

    def page_alterations(self, stages, counts):
        out = []
        for st in stages:
            n = counts[st]
            pgs = sorted(set([0, n // 2, n - 1]))
            for p in pgs:
                for val in (0, 1, 2, 0xff):
                    if val == (1 if p < n - 1 else 0):
                        continue
                    out.append(({"kind": "flag", "stage": st, "page": p, "value": val, "field": st},
                                "open"))
                out.append(({"kind": "drop-tail", "stage": st, "page": p, "n": 1, "field": st},
                            "must-fail"))
            out.append(({"kind": "extra-page", "stage": st, "data": "a5", "field": st}, "must-fail"))
            out.append(({"kind": "extra-page", "stage": st, "data": "", "field": st}, "open"))
        return out

    # -- one end-to-end execution --------------------------------------------------------------
    def paths(self, *names):
        return [os.path.join(self.dir, "%d-%s" % (os.getpid(), n)) for n in names]

    def execute(self, plat, cfg, alter, cls, stats, vs):
        stats.evaluations += 1
        for p in self.paths("setup.json", "att.json", "pubkeys.txt", "pubkeys.json", "root.pem"):
            if os.path.exists(p):
                os.unlink(p)
        del _HARNESS_FAILS[:]
        if plat == "ledger":
            r = self.run_ledger(cfg, alter)
        else:
            r = self.run_sgx(cfg, alter)
        if _HARNESS_FAILS:
            raise HarnessError("owned nondeterminism failed inside the run: %s" % _HARNESS_FAILS[0])
        dev_alter = alter is not None and alter["kind"] not in ("root", "root-der")
        if dev_alter and not r["hit"] and r["stage"] is None:
            # the command never asked for the altered answer: nothing was altered in this run
            stats.bump("alterations_not_reached")
            cls = "open"
        field = alter["field"] if alter else None
        kind = alter["kind"] if alter else None
        stats.observe((plat, tuple(sorted(cfg.items())), field, kind, cls, r["stage"], r["exc"]))
        stats.sample({"platform": plat, "device": cfg, "alteration": alter, "class": cls,
                      "failed_at": r["stage"], "error": (r["text"] or "")[:100]})
        case = {"kind": "one", "plat": plat, "cfg": cfg, "alter": alter, "cls": cls}
        cfgs = ",".join("%s=%s" % kv for kv in sorted(cfg.items()))
        if cls == "open":
            stats.dont_care += 1
        if cls == "genuine" and r["stage"] is not None:
            vs.append(Violation("C15", "C15:%s:genuine-refused:%s:%s:%s%s"
                                % (plat, r["stage"], r.get("frame"), r["exc"],
                                   ":qe-auth-data-empty" if cfg.get("auth") == 0
                                   and r["stage"] == "attestation" else ""),
                                case, None,
                                {"failed_at": r["stage"], "exception": r["exc"], "text": r["text"],
                                 "where": r.get("frame")},
                                "all stages succeed and verify prints the device's values",
                                "files written for a genuine device are accepted"))
            return None
        if cls == "must-fail" and r["stage"] is None:
            vs.append(Violation("C15", "C15:%s:alteration-accepted:%s:%s" % (plat, kind, field), case,
                                None, {"outcome": "gathering and verification succeeded",
                                       "stdout": r["stdout"][-1200:]},
                                {"outcome": "gathering or verification fails"},
                                "any altered signed byte / signature / certificate / root fails"))
            return None
        if r["stage"] is not None:
            return r
        for label, got, want in r["mismatches"]:
            vs.append(Violation("C15", "C15:%s:%s:%s" % (plat, "values" if cls == "genuine"
                                                        else "altered-values", label),
                                case, None, {"got": got}, {"device": want},
                                "accepted with exactly the device's values / files load back"))
        return r

    @contextlib.contextmanager
    def owned(self, dev, world, streams, modules):
        """everything nondeterministic around one run: operator terminal (stdin, getpass, whatever
        name they were imported under), randomness through every door, the admin transport"""
        m = self.m
        mods = [m.ONB, m.MISC, m.UNLOCK, m.LA, m.SA, m.PK, m.DA]
        triples = seams.operator_patches(mods, _Operator(dev), _no_getpass)
        if "getDongle" in vars(m.DA):
            triples.append((m.DA, "getDongle", world.get_dongle))
        with patched(*triples):
            with seams.owned_randomness(streams, seams.ByteSrc("c15-other"), modules):
                yield

    def stage(self, r, name, fn):
        if r["stage"] is not None:
            return
        buf = io.StringIO()
        try:
            with contextlib.redirect_stdout(buf):
                fn()
        except HarnessError:
            raise
        except BaseException as e:   # noqa
            r["stage"], r["exc"], r["text"] = name, type(e).__name__, str(e)[:300]
            r["frame"] = self.harness.innermost_repo_frame(e)
        r["stdout_" + name] = buf.getvalue()

    DOCUMENTED_KEYS = ("name", "type", "message", "custom_data", "signature", "signed_by", "tweak",
                       "key", "auth_data")

    @classmethod
    def canonical(cls, doc):
        """What docs/attestation.md gives a meaning to: version, targets (as a set), elements by
        name with their documented fields; hex compared as bytes, PEM bodies as DER.  Key order,
        element order, layout and additional keys carry no information."""
        def value(el, k):
            v = el.get(k)
            if not isinstance(v, str):
                return v
            if k in ("name", "type", "signed_by"):
                return v
            if k == "message" and el.get("type") == "x509_pem":
                try:
                    return base64.b64decode(v)
                except Exception:   # noqa
                    return v
            try:
                return bytes.fromhex(v)
            except ValueError:
                return v
        els = {}
        for el in doc.get("elements", []):
            els[el.get("name")] = {k: value(el, k) for k in cls.DOCUMENTED_KEYS if k in el}
        tg = doc.get("targets")
        return {"version": doc.get("version"),
                "targets": sorted(tg) if isinstance(tg, list) else tg, "elements": els}

    def fixed_point(self, path, mism, label):
        """the file loads back without loss: what the public loader holds after reading the file
        (its to_dict) means the same as the file (see canonical)"""
        with open(path) as f:
            text = f.read()
        doc = json.loads(text)
        try:
            again = self.m.CERT.HSMCertificate.from_jsonfile(path).to_dict()
        except Exception as e:   # noqa
            mism.append((label + "-loads-back", repr(e), "loads"))
            return doc
        if self.canonical(json.loads(json.dumps(again))) != self.canonical(doc):
            mism.append((label + "-loads-back-without-loss", again, doc))
        return doc

    # -- Ledger ------------------------------------------------------------------------------
    def run_ledger(self, cfg, alter):
        m = self.m
        fac = self.factories[bool(cfg["legacy"]) if cfg.get("values") is None
                             else (bool(cfg["legacy"]), cfg["values"])]
        ud = self.ud_for(cfg)
        it = None
        if cfg.get("ud") is not None:
            it = int.from_bytes((fac.signer_iteration.to_bytes(2, "big")
                                 + bytes.fromhex(cfg["ud"]))[-2:], "big")
        dev = GenuineLedger(fac, UI_PAGE_SIZES[cfg["pages"]], check_host=alter is None,
                            wallet_salt=self.salts[bool(cfg["legacy"])][cfg.get("keys", "base")],
                            signer_iteration=it)
        if alter is not None and alter["kind"] != "root":
            dev.alter = alter
        world = World(dev)
        self.harness.bind_world(world)
        setup, att, pktxt, pkjson, _ = self.paths("setup.json", "att.json", "pubkeys.txt",
                                                  "pubkeys.json", "root.pem")
        root = fac.issuer.pub65
        if alter is not None and alter["kind"] == "root":
            root = flip(root, alter["index"], alter["mask"])
        r = {"stage": None, "exc": None, "text": None, "mismatches": [], "stdout": ""}
        m.Platform.set(m.Platform.LEDGER)
        seed_src, nonce_src = seams.ByteSrc("c15-seed"), seams.ByteSrc("c15-nonce")
        with self.owned(dev, world, {"onboard": seed_src, "dongle_admin": nonce_src},
                        [(m.ONB, seed_src), (m.DA, nonce_src)]):
            self.stage(r, "onboard", lambda: m.ONB.do_onboard(
                ns("ledger", operation="onboard", pin=PIN, output_file_path=setup)))
            dev.power_cycle()
            if cfg.get("regather"):
                # history: an attestation gathered earlier (other UD value, earlier blockchain
                # state) is the input certificate of the gathering that counts
                old_ud = hashlib.sha256(b"earlier" + ud).digest()
                self.stage(r, "attestation-earlier", lambda: m.LA.do_attestation(
                    ns("ledger", operation="attestation", pin=PIN, output_file_path=att,
                       attestation_certificate_file_path=setup,
                       attestation_ud_source=old_ud.hex())))
                dev.best_block = hashlib.sha256(b"moved on" + dev.best_block).digest()
                dev.last_tx_hash = hashlib.sha256(b"moved on" + dev.last_tx_hash).digest()
                dev.power_cycle()
                setup = att
            self.stage(r, "attestation", lambda: m.LA.do_attestation(
                ns("ledger", operation="attestation", pin=PIN, output_file_path=att,
                   attestation_certificate_file_path=setup, attestation_ud_source=self.spell(ud, cfg))))
            self.stage(r, "pubkeys", lambda: m.PK.do_get_pubkeys(
                ns("ledger", operation="pubkeys", no_unlock=True, output_file_path=pktxt)))
            self.stage(r, "verify", lambda: m.VL.do_verify_attestation(
                ns("ledger", operation="verify_attestation", attestation_certificate_file_path=att,
                   pubkeys_file_path=pkjson, root_authority=root.hex())))
        r["hit"] = dev.altered_hit
        r["stdout"] = r.get("stdout_verify", "")
        if world.livelock:
            raise HarnessError("exchange cap hit")
        if r["stage"] is not None:
            return r
        # -- what was written and printed vs the device ---------------------------------
        mism = r["mismatches"]
        doc = self.fixed_point(att, mism, "attestation-file")
        self.fixed_point(setup, mism, "setup-file")
        els = {e["name"]: e for e in doc.get("elements", [])}
        endo = dev.endorsement
        ui_msg = L.ui_message(fac.ui_header, ud, dev.wallet(L.UI_PATH).pub33, fac.signer_hash,
                              dev.signer_iteration)
        if fac.legacy_signer:
            sg_msg = L.legacy_message(fac.signer_header, dev.keys_hash())
        else:
            sg_msg = L.powhsm_message(fac.signer_header, b"led", ud, dev.keys_hash(),
                                      dev.best_block, dev.last_tx_hash[:8], 0)
        want = {
            ("device", "message"): (bytes([2]) + fac.cert_header + fac.device.pub65).hex(),
            ("device", "signature"): fac.issuer_sig.hex(), ("device", "signed_by"): "root",
            ("attestation", "message"): (bytes([0xff]) + endo.pub65).hex(),
            ("attestation", "signature"): fac.sign(fac.device, bytes([0xff]) + endo.pub65).hex(),
            ("attestation", "signed_by"): "device",
            ("ui", "message"): ui_msg.hex(), ("ui", "tweak"): fac.ui_hash.hex(),
            ("ui", "signature"): fac.sign(fac.tweaked(endo, fac.ui_hash), ui_msg).hex(),
            ("ui", "signed_by"): "attestation",
            ("signer", "message"): sg_msg.hex(), ("signer", "tweak"): fac.signer_hash.hex(),
            ("signer", "signature"): fac.sign(fac.tweaked(endo, fac.signer_hash), sg_msg).hex(),
            ("signer", "signed_by"): "attestation",
        }
        for (el, k), w in want.items():
            got = els.get(el, {}).get(k)
            if not same_field(k, got, w):
                mism.append(("file:%s.%s" % (el, k), got, w))
        names = [e.get("name") for e in doc.get("elements", [])]
        if len(names) != len(set(names)):
            mism.append(("file:one-element-per-name", names, sorted(set(names))))
        if sorted(doc.get("targets", [])) != ["signer", "ui"]:
            mism.append(("file:targets", doc.get("targets"), ["ui", "signer"]))
        with open(pkjson) as f:
            pk = json.load(f)
        wantpk = {p: dev.wallet(p).pub65.hex() for p in L.PATHS}
        if not same_keys(pk, wantpk):
            mism.append(("pubkeys-file", pk, wantpk))
        sec = L.parse_output(r["stdout"])
        ui = L.section(sec, "UI verified")
        sg = L.section(sec, "Signer verified")
        wu = {"UD value": ud.hex(),
              "Derived public key (%s)" % L.UI_PATH: dev.wallet(L.UI_PATH).pub33.hex(),
              "Authorized signer hash": fac.signer_hash.hex(),
              "Authorized signer iteration": str(dev.signer_iteration),
              "Installed UI hash": fac.ui_hash.hex(), "Installed UI version": fac.ui_version}
        ws = {p: dev.wallet(p).pub33.hex() for p in L.PATHS}
        ws.update({"Hash": dev.keys_hash().hex(), "Installed Signer hash": fac.signer_hash.hex(),
                   "Installed Signer version": fac.signer_version})
        if not fac.legacy_signer:
            ws.update({"Platform": "led", "UD value": ud.hex(),
                       "Best block": dev.best_block.hex(),
                       "Last transaction signed": dev.last_tx_hash[:8].hex(), "Timestamp": "0"})
        for title, s, w in (("ui", ui, wu), ("signer", sg, ws)):
            if s is None:
                mism.append(("printed:%s-section" % title, None, "present"))
                continue
            for k2, v2 in w.items():
                if s[1].get(k2) != [v2]:
                    mism.append(("printed:%s:%s" % (title, k2.split(" (")[0]), s[1].get(k2), v2))
        if alter is None:
            bad = [c for c in dev.host_conformance if not c[1]]
            if bad or len(dev.host_conformance) != 2:
                mism.append(("host-certificates", dev.host_conformance, "two valid certificates"))
            r["part_lens"] = {
                "devkey.header": len(fac.cert_header), "devkey.pub": 65,
                "devkey.sig": len(fac.issuer_sig), "devkey.lens": 3, "nonce.resp": 12,
                "ephemeral.resp": 8, "endo.pub": 65,
                "endo.sig": len(fac.sign(fac.device, bytes([0xff]) + endo.pub65)),
                "ui.apphash": 32, "ui.msg": len(ui_msg),
                "ui.sig": len(bytes.fromhex(want[("ui", "signature")])),
                "signer.sig": len(bytes.fromhex(want[("signer", "signature")])),
                "signer.msg": len(sg_msg), "signer.env": len(sg_msg), "signer.apphash": 32,
            }
            r["part_lens"].update({"pubkey.%d" % i: 65 for i in range(6)})
            r["page_counts"] = {"ui.msg": cfg["pages"], "signer.msg": (len(sg_msg) + 78) // 79,
                                "signer.env": (len(sg_msg) + 78) // 79}
            psz = UI_PAGE_SIZES[cfg["pages"]]
            if (len(ui_msg) + psz - 1) // psz != cfg["pages"]:
                raise HarnessError("UI page size table does not give %d pages" % cfg["pages"])
        return r

    # -- SGX ---------------------------------------------------------------------------------
    def run_sgx(self, cfg, alter):
        m = self.m
        plat = self.platform_of(cfg)
        ud = self.ud_for(cfg)
        dev = GenuineSgx(plat)
        if alter is not None and alter["kind"] != "root-der":
            dev.alter = alter
        world = World(dev)
        self.harness.bind_world(world)
        _, att, pktxt, pkjson, rootp = self.paths("setup.json", "att.json", "pubkeys.txt",
                                                  "pubkeys.json", "root.pem")
        root_der = plat.h.root_der
        if alter is not None and alter["kind"] == "root-der":
            root_der = flip(root_der, alter["index"], alter["mask"])
        with open(rootp, "wb") as f:
            f.write(S.pem(root_der))
        r = {"stage": None, "exc": None, "text": None, "mismatches": [], "stdout": ""}
        m.Platform.set(m.Platform.SGX, {"sgx_host": "localhost", "sgx_port": 7777})
        S.FixedClock.current = S.CLOCK if cfg.get("zone") is None else plat.t0
        with self.owned(dev, world, {}, []), seams.process_zone(cfg.get("zone") or "UTC"):
            self.stage(r, "attestation", lambda: m.SA.do_attestation(
                ns("sgx", operation="attestation", pin=plat.pin.decode(), output_file_path=att,
                   attestation_ud_source=self.spell(ud, cfg))))
            self.stage(r, "pubkeys", lambda: m.PK.do_get_pubkeys(
                ns("sgx", operation="pubkeys", no_unlock=True, output_file_path=pktxt)))
            self.stage(r, "verify", lambda: m.VS.do_verify_attestation(
                ns("sgx", operation="verify_attestation", attestation_certificate_file_path=att,
                   pubkeys_file_path=pkjson, root_authority=rootp)))
        r["hit"] = dev.altered_hit
        r["stdout"] = r.get("stdout_verify", "")
        if world.livelock:
            raise HarnessError("exchange cap hit")
        if r["stage"] is not None:
            return r
        mism = r["mismatches"]
        doc = self.fixed_point(att, mism, "attestation-file")
        els = {e["name"]: e for e in doc.get("elements", [])}
        msg = plat.message(ud)
        f = plat.enclave.fields(msg)
        want = {
            ("quote", "type"): "sgx_quote", ("quote", "message"): f["quote"].hex(),
            ("quote", "custom_data"): msg.hex(), ("quote", "signed_by"): "attestation",
            ("attestation", "type"): "sgx_attestation_key",
            ("attestation", "message"): f["qe_report_body"].hex(),
            ("attestation", "key"): "04" + f["attestation_key"].hex(),
            ("attestation", "auth_data"): f["qe_auth_data"].hex(),
            ("attestation", "signed_by"): "quoting_enclave",
            ("quoting_enclave", "type"): "x509_pem", ("quoting_enclave", "signed_by"): "platform_ca",
            ("platform_ca", "type"): "x509_pem", ("platform_ca", "signed_by"): "sgx_root",
        }
        for (el, k), w in want.items():
            got = els.get(el, {}).get(k)
            if not same_field(k, got, w):
                mism.append(("file:%s.%s" % (el, k), got, w))
        for el, der in (("quoting_enclave", plat.h.pck_der), ("platform_ca", plat.h.ca_der)):
            try:
                got = base64.b64decode(els.get(el, {}).get("message", ""))
            except Exception:   # noqa
                got = None
            # the signed content (TBSCertificate, signature value) must be the device's; bytes
            # of a certificate that no signature covers may differ
            try:
                g, w2 = S.der_regions(got), S.der_regions(der)
                same = all(got[g[x][0]:g[x][1]] == der[w2[x][0]:w2[x][1]] for x in ("tbs", "sigval"))
            except Exception:   # noqa
                same = False
            if not same:
                mism.append(("file:%s.message" % el, got, der))
        for el, raw in (("quote", f["signature"]), ("attestation", f["qe_report_body_signature"])):
            try:
                rr, ss = asym_utils.decode_dss_signature(
                    bytes.fromhex(els.get(el, {}).get("signature", "")))
                got = rr.to_bytes(32, "big") + ss.to_bytes(32, "big")
            except Exception:   # noqa
                got = None
            mirrored = raw[:32] + (S.P256_N - int.from_bytes(raw[32:], "big")).to_bytes(32, "big")
            if got != raw and not (alter is not None and alter.get("op") == "high-s"
                                   and got == mirrored):
                mism.append(("file:%s.signature" % el, got, raw))
        if sorted(doc.get("targets") or []) != ["quote"]:
            mism.append(("file:targets", doc.get("targets"), ["quote"]))
        with open(pkjson) as fh:
            pk = json.load(fh)
        wantpk = {p: plat.wallet[p].pub65.hex() for p in L.PATHS}
        if not same_keys(pk, wantpk):
            mism.append(("pubkeys-file", pk, wantpk))
        s = L.section(L.parse_output(r["stdout"]), "powHSM verified")
        w = {p: plat.wallet[p].pub33.hex() for p in L.PATHS}
        w.update({"Hash": plat.keys_hash.hex(),
                  "Installed powHSM MRENCLAVE": plat.enclave.mrenclave.hex(),
                  "Installed powHSM MRSIGNER": plat.enclave.mrsigner.hex(),
                  "Installed powHSM version": plat.version, "Platform": "sgx",
                  "UD value": ud.hex(),
                  "Best block": plat.best_block.hex(),
                  "Last transaction signed": plat.last_tx_hash[:8].hex(), "Timestamp": "0"})
        if s is None:
            mism.append(("printed:section", None, "present"))
        else:
            for k2, v2 in w.items():
                if s[1].get(k2) != [v2]:
                    mism.append(("printed:%s" % k2, s[1].get(k2), v2))
        return r


CHECK = C15
