"""C02 - requests are classified exactly as the protocol specification prescribes.

Bounded exhaustive input enumeration: every JSON document within <= 2 (thorough 3)
simultaneous field deviations from a valid template of each command, plus non-object
values, in both protocol modes and from two manager states (fresh / reconnection
pending), through the real handle_request over a conforming device; the oracle is a
spec classifier written from the protocol documents (verif/refs/spec.py)."""
import copy
import itertools
import json

from ..framework import Check, Violation
from ..refs import spec
from .. import harness, dialogues, fwtables
from ..simdev.base import World
from ..simdev.powhsm import PowHsm

ABSENT = "<absent>"

HEX_BAD = [None, True, 0, 1.5, "", "zz", "abc", [], {}, " ", "\n\t ", "0x",
           "\u0660\u0661", "a\u0663", "\uff11\uff12", "\u0967\u0968ab"]     # digits that are not ASCII


def menus():
    """path -> list of replacement values (ABSENT removes the key)"""
    key_bad = [ABSENT, None, 5, "", "44'/0'/0'/0/0", "m/44'/0'/0'/0", "m/44'/0'/0'/0/0/0",
               "m/44'/2147483648/0'/0/0", "m/44'/-1/0'/0/0", "m/44''/0'/0'/0/0", "m/44'/0'/0'/0/x",
               "m/44'/0'/0'//0", " m/44'/0'/0'/0/0", [], {},
               "m/44'/0'/0'/0/1", "m/044'/0'/0'/0/0", "m/44'/2147483647'/0'/0/0",
               # white space and look-alikes at every kind of position (line-oriented patterns and
               # int() are more generous than the documented syntax)
               "m/44'/0'/0'/0/0\n", "m/44'\n/0'/0'/0/0", "m/44\n'/0'/0'/0/0", "\nm/44'/0'/0'/0/0",
               "m/44'/0'/0'/0/0\r\n", "m/44'/0'/0'/0/0 ", "m/44'/0'/0'/0/0\t", "m/44'/0'/0'/0/ 0",
               "m/44'/0'/0'/0/0\x00", "m/44'/0'/0'/0/+0", "m/44'/0'/0'/0/0_0", "m/44'/0'/0'/0/0x0",
               "M/44'/0'/0'/0/0", "m/44'/0'/0'/0/0/", "m\\44'\\0'\\0'\\0\\0", "m/44\u2019/0'/0'/0/0",
               "m/44'/0'/0'/0/0.0", "m/44'/0'/0'/0/0e0"]
    M = {
        ("command",): [ABSENT, None, 5, "", "Sign", "unknownCommand", [], {}, ["sign"], True],
        ("version",): [ABSENT, 4, 6, 0, "5", 5.0, 1.0, True, None, [], 1, 5],
        ("foo",): ["bar"],
        ("keyId",): key_bad,
        ("auth",): [ABSENT, None, "x", [], {}, 5],
        ("auth", "receipt"): [ABSENT] + HEX_BAD + ["aa bb"],
        ("auth", "receipt_merkle_proof"): [ABSENT, None, "aa", [], [5], [""], ["zz"], ["aa", 5],
                                           [None], {}, [["aa"]], ["aa", "b"], ["aa bb"], [" "], ["aa", "\t"], ["\u0661\u0662"], ["aa", "b\u0669"],
                                           {"aabb": 0, "ccdd": 1}, {"aa": "bb"}, "aabb"],
        ("auth", "foo"): ["bar"],
        ("message",): [ABSENT, None, "aa" * 32, [], {}, 5],
        ("message", "tx"): [ABSENT] + HEX_BAD + ["aabb", "01000000"],
        ("message", "input"): [ABSENT, None, "0", 1.5, True, -1, 2 ** 32, 2 ** 64, 10 ** 30, 0, 1,
                               2 ** 32 - 1],
        ("message", "sighashComputationMode"): [ABSENT, None, 5, "", "LEGACY", "other", "segwit",
                                                "legacy", [], {}, ["legacy"], {"legacy": 1}, True, 1.5],
        ("message", "witnessScript"): [ABSENT] + HEX_BAD + ["aa"],
        ("message", "outpointValue"): [ABSENT, None, "1", 1.5, True, 0, -1, 2 ** 64, 1, 2 ** 64 - 1],
        ("message", "hash"): [ABSENT] + HEX_BAD + ["aa" * 31, "aa" * 33, "AA" * 32, "aa" * 32],
        ("message", "foo"): ["bar"],
        ("message:v1",): [ABSENT] + HEX_BAD + ["aa" * 31, "aa" * 33, {"hash": "aa" * 32}, "AB" * 32],
        ("blocks",): [ABSENT, None, "aa", [], [5], [None], ["zz"], [""], [[]], {}, ["aa", 5], [" "], {"aabb": 0}],
        ("brothers",): [ABSENT, None, "aa", [], "LEN+1", "LEN-1", [5, 5], [[5], []], [[""], []],
                        [["zz"], []], [None, None], {}, [["aa", None], []], [[" "], []], {"aabb": []}, [{"aabb": 0}, []]],
        ("udValue",): [ABSENT] + HEX_BAD + ["SHORT", "LONG", "UPPER", "0xPREFIX", "0XPREFIX", "0xSHORT"],
    }
    return M


class C02(Check):
    id = "C02"
    level = "exploration"
    rule = ("for each of the 10 v5 commands (sign in 3 forms) and the 3 v1 commands a valid "
            "template; every document with <= K simultaneous deviations (field absent / null / "
            "wrong type / empty / non-hex / boundary values / extra keys; command and version "
            "variants), plus every non-object JSON kind; each from the initial state and with a "
            "reconnection pending. Distinct = (command, set of deviating paths, spec verdict, "
            "observed verdict).")
    assumptions = [
        "the spec classifier (verif/refs/spec.py) is a reading of docs/protocol.md and "
        "protocol-v1.md; values the documents do not decide (extra keys, version 5.0, hex with "
        "blanks, key ids with non-ASCII digits, authorization given with a hash message) allow "
        "both acceptance and the corresponding rejection",
        "only shape defects count; content the documents leave to the device makes the request "
        "accepted",
        "a blocks member that is a string but not hex must be answered -204; device contact is "
        "left open for it",
    ]
    trusted_base = ["verif/refs/spec.py", "verif/simdev/powhsm.py"]

    def prepare(self):
        self.K = 3 if self.thorough else 2
        self.M = menus()
        from ..env import Rng
        from .. import reqs
        rng = Rng("c02-tx")
        good = reqs.signed_script(rng)
        self.M[("message", "tx")] += [
            reqs.mk_tx(rng, [b""]).hex(),                      # decodes, empty scriptSig
            reqs.mk_tx(rng, [good, b""]).hex(),                # empty scriptSig on the 2nd input
            reqs.mk_tx(rng, [b"\x05\x01\x02"]).hex(),          # push running past the script
            reqs.mk_tx(rng, [good]).hex() + "00",              # trailing byte
            reqs.mk_tx(rng, [good]).hex()[:-2],                # truncated
            reqs.mk_tx(rng, [good]).hex().upper(),             # valid, upper-case hex
        ]
        R = dialogues.nominal_requests()
        self.templates = {
            "version": ({"command": "version"}, False),
            "sign-legacy": (R["sign-legacy"], False),
            "sign-segwit": (R["sign-segwit"], False),
            "sign-hash": (R["sign-hash"], False),
            "getPubKey": (R["getPubKey"], False),
            "advance": (R["advance-brothers"], False),
            "update": (R["updateAncestor"], False),
            "reset": (R["reset"], False),
            "state": (R["state"], False),
            "params": (R["params"], False),
            "signerHeartbeat": (R["signerHeartbeat"], False),
            "uiHeartbeat": (R["uiHeartbeat"], False),
            "v1-version": ({"command": "version"}, True),
            "v1-sign": (R["v1-sign"], True),
            "v1-getPubKey": (R["v1-getPubKey"], True),
        }
        # the commands that exist only in the current protocol, sent to a legacy-mode manager
        for k in ("advance", "update", "reset", "state", "params", "signerHeartbeat", "uiHeartbeat"):
            t = dict(self.templates[k][0])
            t["version"] = 1
            self.templates["v1-" + k] = (t, True)
        self.doc, self.generic = fwtables.doc_codes("v5")

    def bounds(self):
        return {"max_simultaneous_deviations": self.K, "states": ["initial", "reconnection pending"]}

    def paths_for(self, name):
        t, v1 = self.templates[name]
        paths = [("command",), ("version",), ("foo",)]
        for k in t:
            if k in ("command", "version"):
                continue
            if k == "message" and v1:
                paths.append(("message:v1",))
                continue
            paths.append((k,))
            if isinstance(t[k], dict):
                for kk in t[k]:
                    paths.append((k, kk))
                paths.append((k, "foo"))
        if name == "sign-hash":
            paths.append(("auth",))
        return [p for p in paths if p in self.M]

    def cases(self):
        base = self._base_cases()
        # a sample of them also under `python -O` (assert statements compiled away)
        return base + [{"kind": "optimized", "sub": c} for c in base[::max(1, len(base) // 6)][:6]]

    def _base_cases(self):
        cs = [{"kind": "nonobject"}]
        for name in self.templates:
            paths = self.paths_for(name)
            for k in range(0, self.K + 1):
                for combo in itertools.combinations(range(len(paths)), k):
                    cs.append({"kind": "combo", "t": name, "paths": list(combo)})
        for v1 in (False, True):
            for order in (0, 1):
                cs.append({"kind": "sequence", "v1": v1, "order": order})
        return cs

    def apply(self, name, devs):
        t, v1 = self.templates[name]
        doc = copy.deepcopy(t)
        for path, val in devs:
            p0 = path[0].split(":")[0]
            if val == "LEN+1":
                val = [[] for _ in range(len(t["blocks"]) + 1)]
            elif val == "LEN-1":
                val = [[] for _ in range(len(t["blocks"]) - 1)]
            elif val in ("SHORT", "LONG", "UPPER", "0xPREFIX", "0XPREFIX", "0xSHORT"):
                u = t["udValue"]
                val = {"SHORT": u[2:], "LONG": u + "aa", "UPPER": u.upper(), "0xPREFIX": "0x" + u,
                       "0XPREFIX": "0X" + u, "0xSHORT": "0x" + u[2:]}[val]
            if len(path) == 1:
                if val == ABSENT:
                    doc.pop(p0, None)
                else:
                    doc[p0] = val
            else:
                if not isinstance(doc.get(p0), dict):
                    return None        # parent was replaced by a non-object: combination void
                if val == ABSENT:
                    doc[p0].pop(path[1], None)
                else:
                    doc[p0][path[1]] = val
        return doc

    def run_case(self, case, stats):
        if case.get("kind") == "optimized":
            from ..framework import optimized
            return optimized(self, case, stats)
        vs = []
        if case["kind"] == "one":
            self.eval_doc(json.loads(case["doc"]), case["v1"], case["pending"], ("replay",), stats, vs,
                          where=case.get("where"))
            return vs
        if case["kind"] == "sequence":
            return self.sequence(case, stats)
        if case["kind"] == "nonobject":
            for val in (None, True, False, 0, 5, -1.5, "", "sign", [], [{"command": "version"}],
                        ["command", "version"]):
                for v1 in (False, True):
                    for pending in (False, True):
                        self.eval_doc(val, v1, pending, ("nonobject",), stats, vs)
            return vs
        name = case["t"]
        t, v1 = self.templates[name]
        paths = [self.paths_for(name)[i] for i in case["paths"]]
        if len(paths) == 2 and len(set(p[0] for p in paths)) == 1 and any(len(p) == 1 for p in paths):
            pass
        for vals in itertools.product(*[self.M[p] for p in paths]):
            doc = self.apply(name, list(zip(paths, vals)))
            if doc is None:
                continue
            for pending in ((False, True) if len(paths) <= 1 or self.thorough else (False,)):
                self.eval_doc(doc, v1, pending, (name, tuple(paths)), stats, vs)
        return vs

    def sequence(self, case, stats):
        """every single-deviation document of the mode's templates one after the other on ONE
        protocol object: verdict and device contact must equal those on a fresh object (the
        classification of a request may not depend on the requests before it)"""
        vs = []
        v1 = case["v1"]
        docs = []
        for name, (t, tv1) in self.templates.items():
            if tv1 != v1:
                continue
            for p in self.paths_for(name):
                for val in self.M[p]:
                    d = self.apply(name, [(p, val)])
                    if d is not None:
                        docs.append(d)
        if case["order"]:
            docs.reverse()

        def one(proto, w, doc):
            base = len(w.log)
            reply, exc = harness.handle_request(proto, copy.deepcopy(doc))
            return reply, exc, len(w.log) > base
        fresh = []
        for d in docs:
            w = World(PowHsm(seed=b"c02"))
            fresh.append(one(harness.make_protocol(w, v1=v1), w, d))
        w = World(PowHsm(seed=b"c02"))
        proto = harness.make_protocol(w, v1=v1)
        for k, d in enumerate(docs):
            stats.evaluations += 1
            got = one(proto, w, d)
            stats.observe(("sequence", v1, got == fresh[k], got[0].get("errorcode") if isinstance(got[0], dict) else None))
            if got != fresh[k]:
                vs.append(Violation("C02", "C02:verdict-depends-on-history:%s" % (d.get("command") if isinstance(d.get("command"), str) else "?"),
                                    dict(case, upto=k), None,
                                    {"doc": json.dumps(d)[:300], "reply": got[0], "exc": got[1], "contacted": got[2]},
                                    {"reply_on_fresh_object": fresh[k][0], "contacted": fresh[k][2]}, "history"))
                break
        return vs

    def eval_doc(self, doc, v1, pending, desc, stats, vs, where=None):
        stats.evaluations += 1
        allowed, accept_ok, contact_open = spec.classify(copy.deepcopy(doc), v1)
        dev = PowHsm(seed=b"c02")
        w = World(dev)
        proto = harness.make_protocol(w, v1=v1)
        if pending:
            (proto.protocol_v2 if v1 else proto).report_comm_issue()
        base = len(w.log)
        reply, exc = harness.handle_request(proto, copy.deepcopy(doc))
        log = w.log[base:]
        contacted = len(log) > 0
        code = reply.get("errorcode") if isinstance(reply, dict) else None
        cmd = doc.get("command") if isinstance(doc, dict) else None
        is_version = cmd == "version"
        if contacted or (is_version and code == 0 and exc is None):
            verdict = "accepted"
        else:
            verdict = code
        stats.observe((desc[0], tuple(desc[1]) if len(desc) > 1 else None, tuple(sorted(allowed)),
                       accept_ok, verdict if verdict == "accepted" else code, exc is not None))
        stats.sample({"doc": json.dumps(doc)[:300], "v1": v1, "pending": pending,
                      "spec_allows": sorted(allowed), "accept_allowed": accept_ok,
                      "observed": str(verdict)}, cap=4)
        if (accept_ok and allowed) or (not allowed and not accept_ok):
            stats.dont_care += 1

        if where is None:
            where = "%s:%s" % (desc[0], "+".join("/".join(p) for p in desc[1]) if len(desc) > 1 else "")

        def viol(clause, detail, observed, expected):
            vs.append(Violation("C02", "C02:%s:%s" % (clause, detail),
                                {"kind": "one", "doc": json.dumps(doc), "v1": v1, "pending": pending,
                                 "where": where},
                                None, observed, expected, clause))
        if exc is not None or not isinstance(code, int) or isinstance(code, bool):
            viol("no-verdict", harness.LAST_EXC_SITE[0] or "no-errorcode", {"reply": reply, "exc": exc},
                 {"allowed": sorted(allowed), "accept": accept_ok})
            return
        if verdict == "accepted":
            if accept_ok:
                # accepted: code must be one the documents list for the command
                docset = ({0, -2, -666} if v1 else
                          (self.doc.get(fwtables.DOC_TITLES.get(cmd, ""), set()) | self.generic))
                if code not in docset:
                    viol("accepted-undocumented-code", where, {"reply": reply},
                         {"documented": sorted(docset)})
            elif contact_open and code in allowed:
                pass
            else:
                viol("device-contacted-for-defective-request", where,
                     {"reply": reply, "log_entries": len(log)},
                     {"allowed": sorted(allowed), "device_log": "empty"})
            return
        # no device contact
        if code in allowed:
            return
        if not allowed:
            viol("rejected-but-valid", where, {"reply": reply}, "accepted")
        else:
            viol("wrong-rejection-code", where, {"reply": reply}, {"allowed": sorted(allowed)})

    def replay(self, case, choices):
        from ..xplore import Stats
        return self.run_case(case, Stats())


CHECK = C02
