"""C08 - the Ledger and SGX verify_attestation commands vouch only for the operator's keys
and a well-formed message.

Full product of small variant menus (certificate chain x targets x UI message x signer /
powHSM message {format, header, length, platform} x public-keys file x root of trust), every
variant really signed with keys owned by the harness, through the real
``do_verify_attestation`` of admin/verify_ledger_attestation.py and
admin/verify_sgx_attestation.py (and, for a sample, through adm_ledger.main / adm_sgx.main).
Oracle: reference predicate of the statement + offset table of docs/attestation.md.
"""
import argparse
import atexit
import contextlib
import io
import json
import os
import re
import shutil
import sys
import tempfile

from ..framework import Check, Violation
from ..xplore import HarnessError, Stats
from ..env import Rng, patched
from ..att import k1, layout as L, sgx as S
from ..att.ledgergen import LedgerGen, pubkeys_variants, CHAIN_VARIANTS as L_CHAINS
from ..att.sgxgen import SgxGen, CHAIN_VARIANTS as S_CHAINS

DEFAULT_LEDGER_ROOT_DOC = None       # filled from docs/attestation.md in prepare()

# -- menus (name -> value); the quick tier takes the names listed in Q_* ---------------------
UI_VARIANTS = {
    # name: (header, attested key, length change, class) ; class: ok | foreign | open
    "exact": (L.UI_HEADER, "own", 0, "ok"),
    "other-key": (L.UI_HEADER, "other", 0, "ok"),
    "foreign-prefix": (b"HSM:UX:5.4", "own", 0, "foreign"),
    "foreign-powhsm": (b"POWHSM:5.4", "own", 0, "foreign"),
    "foreign-lowercase": (b"hsm:ui:5.4", "own", 0, "foreign"),
    "foreign-shifted": (b"\x00HSM:UI:5.4", "own", 0, "foreign"),
    "foreign-noversion": (b"HSM:UI:" + b"\xa5\x5a\xa5", "own", 0, "foreign"),
    "version-5.3": (b"HSM:UI:5.3", "own", 0, "open"),
    "version-6.0": (b"HSM:UI:6.0", "own", 0, "open"),
    "version-5x4": (b"HSM:UI:5x4", "own", 0, "open"),
    "short-1": (L.UI_HEADER, "own", -1, "open"),
    "long+1": (L.UI_HEADER, "own", 1, "open"),
}
T_UI = ["exact", "other-key", "foreign-prefix", "foreign-lowercase", "foreign-noversion",
        "version-5.3", "version-6.0", "version-5x4", "short-1"]
Q_UI = ["exact", "other-key", "foreign-prefix", "foreign-lowercase", "version-5.3", "version-6.0"]

SIGNER_HEADERS = {
    "legacy": {"ok": (L.LEGACY_HEADER, "ok"), "foreign": (b"HSM:SIGNAR:5.3", "foreign"),
               "foreign-ui": (L.UI_HEADER + b":::.", "foreign"),
               "version-6.0": (b"HSM:SIGNER:6.0", "open"), "version-2.1": (b"HSM:SIGNER:2.1", "open")},
    "current": {"ok": (L.POWHSM_HEADER, "ok"), "foreign": (b"POWHSN:5.4::", "foreign"),
                "foreign-colon": (b"POWHSM:5.4:_", "foreign"),
                "foreign-sgxstyle": (b"powhsm:5.4::", "foreign"),
                "version-5.9": (b"POWHSM:5.9::", "open"), "version-6.0": (b"POWHSM:6.0::", "open")},
}
Q_SIGNER_HEADERS = {"legacy": ["ok", "foreign", "version-6.0"],
                    "current": ["ok", "foreign", "version-5.9"]}
T_SIGNER_HEADERS = {"legacy": ["ok", "foreign", "foreign-ui", "version-6.0"],
                    "current": ["ok", "foreign", "foreign-colon", "version-5.9", "version-6.0"]}
LENGTHS = [0, -1, 1, 32]
PLATFORMS = {"led": b"led", "sgx": b"sgx", "xyz": b"xyz", "nonascii": b"\xff\xfe\x80"}
Q_PLATFORMS = {"ledger": ["led", "xyz"], "sgx": ["sgx", "xyz"]}

L_TARGETS = ["both", "no-ui", "no-signer", "both-reversed", "ui-untargeted", "signer-untargeted"]
Q_L_TARGETS = L_TARGETS[:3]
T_L_TARGETS = L_TARGETS[:5]
S_TARGETS = ["quote", "none", "no-quote-element", "attestation-only"]
Q_S_TARGETS = S_TARGETS[:3]
Q_L_CHAINS = L_CHAINS[:5]
Q_S_CHAINS = S_CHAINS[:8]
Q_PUBKEYS = ["same", "mixed-shuffled", "one-different", "btc-different", "one-missing",
             "one-extra", "renamed-same-order", "paths-swapped", "key-not-on-curve"]
T_PUBKEYS = Q_PUBKEYS + ["btc-missing", "renamed-order-changed", "btc-path-other-spelling"]
Q_S_PUBKEYS = ["same", "mixed-shuffled", "one-different", "one-missing", "one-extra"]
T_S_PUBKEYS = Q_S_PUBKEYS + ["renamed-same-order", "paths-swapped", "key-not-on-curve",
                             "empty-object", "no-file"]
L_ROOTS = ["right", "wrong", "malformed-hex", "none", "right-compressed", "malformed-point",
           "empty", "device-key"]
Q_L_ROOTS = L_ROOTS[:4]
T_L_ROOTS = L_ROOTS[:6]
S_ROOTS = ["right", "wrong", "garbage-pem", "none", "ca-as-root", "empty-file", "url",
           "right-key-not-selfsigned"]
Q_S_ROOTS = S_ROOTS[:4]


class _NoNetwork:
    """Stand-in for the ``requests`` module inside admin.attestation_utils."""

    def __init__(self):
        self.calls = []

    def get(self, url, *a, **k):
        self.calls.append(url)
        raise ConnectionError("network access is not available to the checks: %s" % url)

    post = get


def options_for(plat, cert_path, pubkeys_path, root):
    """The namespace adm_ledger.py / adm_sgx.py hand to the command (all their ``dest``s)."""
    d = dict(operation="verify_attestation", pin=None, new_pin=None, any_pin=False,
             output_file_path=None, no_unlock=False, attestation_ud_source="https://public-node.rsk.co",
             attestation_certificate_file_path=cert_path, root_authority=root,
             pubkeys_file_path=pubkeys_path, verbose=False)
    if plat == "ledger":
        d.update(no_exec=False, signer_authorization_file_path=None)
    else:
        d.update(sgx_port=7777, sgx_host="localhost")
    return argparse.Namespace(**d)


class C08(Check):
    id = "C08"
    level = "exploration"
    rule = ("full product of variant menus: certificate chain {genuine, each link broken once} x "
            "targets {all, each one missing} x UI message {documented header, foreign headers, other "
            "versions, other attested key} x signer/powHSM message {legacy, current} x header {ok, "
            "foreign, other version} x length {exact,-1,+1,+32} x platform bytes x public-keys file "
            "{same keys in other order/encoding, key different, missing, extra, renamed paths, "
            "malformed} x root of trust {right, wrong, malformed, default}; all really signed "
            "(secp256k1 via ecdsa, P-256/X.509 via cryptography); Ledger and SGX commands. Distinct "
            "= (platform, oracle verdict, first failing conjunct, outcome, exception class + text "
            "stem).")
    assumptions = [
        "'expected headers' = HSM:UI:5.4, POWHSM:5.4:: (docs/attestation.md) and HSM:SIGNER:5.3 for "
        "the legacy format (only source: upstream test); other version digits, platform ids other "
        "than the platform's own, UI messages of another length, a BTC path under another spelling "
        "and a root certificate with the right key that is not self-signed are left open (dont_care)",
        "'in path order' = lexicographic order of the UTF-8 path strings (docs/attestation.md)",
        "any exception leaving do_verify_attestation counts as 'ends in an error' (adm_*.py turn "
        "every exception into a non-zero exit code)",
        "field values are seeded, one value per field, all distinct",
        "requests.get is replaced by a function that raises: a URL root is an error case",
        "X.509 validity is evaluated at a fixed clock (admin.certificate_v2.datetime replaced)",
    ]
    trusted_base = ["ecdsa (secp256k1 signing of the version-1 hierarchy)",
                    "cryptography/OpenSSL (P-256 signing, X.509 generation)",
                    "verif/att/layout.py offset tables (calibrated on docs/attestation.md samples)",
                    "/verif/shims/bitcoin (imported transitively by admin.misc)"]

    # ------------------------------------------------------------------------------------
    def prepare(self):
        import admin.verify_ledger_attestation as VL
        import admin.verify_sgx_attestation as VS
        import admin.attestation_utils as AU
        import admin.certificate_v2 as CV2
        from admin.misc import AdminError
        self.VL, self.VS, self.AU, self.CV2, self.AdminError = VL, VS, AU, CV2, AdminError
        L.calibrate_docs()
        L.calibrate_firmware_order()
        S.calibrate_recorded_envelope()
        t = self.thorough
        self.m_ui = T_UI if t else Q_UI
        self.m_sh = T_SIGNER_HEADERS if t else Q_SIGNER_HEADERS
        self.m_plat = ({"ledger": list(PLATFORMS), "sgx": list(PLATFORMS)} if t else Q_PLATFORMS)
        self.m_lt = T_L_TARGETS if t else Q_L_TARGETS
        self.m_st = S_TARGETS if t else Q_S_TARGETS
        self.m_lc = L_CHAINS if t else Q_L_CHAINS
        self.m_sc = S_CHAINS if t else Q_S_CHAINS
        self.m_lroots = T_L_ROOTS if t else Q_L_ROOTS
        self.m_sroots = S_ROOTS if t else Q_S_ROOTS
        self.lg = LedgerGen(Rng("c08-ledger"))
        self.sg = SgxGen(Rng("c08-sgx"))
        self.pkv = pubkeys_variants(self.lg)
        self.m_lpk = T_PUBKEYS if t else Q_PUBKEYS
        self.m_spk = T_S_PUBKEYS if t else Q_S_PUBKEYS
        if k1.parse_pub(b"\x04" + bytes([0x11]) * 64) is not None:
            raise HarnessError("the 'not on curve' key is on the curve")
        # reference walk agrees with the construction of every chain variant
        for ch in L_CHAINS:
            cert = self.lg.certificate(ch, "both", self.lg.ui_msg(),
                                       self.lg.signer_msg("current", L.POWHSM_HEADER))
            want_ui = ch not in ("device-link", "attestation-link", "ui-link", "ui-untweaked")
            want_sg = ch not in ("device-link", "attestation-link", "signer-link",
                                 "signer-foreign-tweak")
            got = (self.lg.reference_chain_ok(cert, "ui", self.lg.issuer.pub65),
                   self.lg.reference_chain_ok(cert, "signer", self.lg.issuer.pub65))
            if got != (want_ui, want_sg):
                raise HarnessError("generator/reference disagree on chain variant %s: %r" % (ch, got))
            if self.lg.reference_chain_ok(cert, "ui", self.lg.other_root.pub65):
                raise HarnessError("chain valid under the wrong root")
        # files shared by all workers
        base = "/dev/shm" if os.path.isdir("/dev/shm") else None
        self.dir = tempfile.mkdtemp(prefix="verif-c08-", dir=base)
        owner = os.getpid()

        def cleanup(d=self.dir):
            if os.getpid() == owner:
                shutil.rmtree(d, ignore_errors=True)
        atexit.register(cleanup)
        self.pk_paths = {}
        for name, (text, _, _) in self.pkv.items():
            p = os.path.join(self.dir, "pubkeys-%s.json" % name)
            if text is not None:
                with open(p, "w") as f:
                    f.write(text)
            self.pk_paths[name] = p
        self.sroots = {}
        for name, (content, kind) in self.sg.roots().items():
            p = os.path.join(self.dir, "root-%s.pem" % name)
            with open(p, "wb") as f:
                f.write(content)
            self.sroots[name] = (p, kind)
        self.sroots["none"] = (None, "none")
        self.sroots["url"] = ("https://certificates.example.invalid/root.pem", "url")
        self.sroots["no-such-file"] = (os.path.join(self.dir, "absent.pem"), "url")
        lg = self.lg
        self.lroots = {
            "right": (lg.issuer.pub65.hex(), True), "right-compressed": (lg.issuer.pub33.hex(), True),
            "wrong": (lg.other_root.pub65.hex(), False), "device-key": (lg.device.pub65.hex(), False),
            "malformed-hex": ("zz" + lg.issuer.pub65.hex()[2:], False),
            "malformed-point": ("04" + "11" * 64, False), "empty": ("", False), "none": (None, False),
        }
        self._written = {}

    def bounds(self):
        return {"ledger": {"chains": len(self.m_lc), "targets": len(self.m_lt), "ui": len(self.m_ui),
                           "signer_messages": len(self.signer_variants("ledger")),
                           "pubkeys_files": len(self.m_lpk), "roots": len(self.m_lroots)},
                "sgx": {"chains": len(self.m_sc), "targets": len(self.m_st),
                        "messages": len(self.signer_variants("sgx")),
                        "pubkeys_files": len(self.m_spk), "roots": len(self.m_sroots)},
                "product": "complete"}

    def alphabets(self):
        return {"ledger_chain": self.m_lc, "ledger_targets": self.m_lt, "ui": self.m_ui,
                "signer_headers": self.m_sh, "lengths": LENGTHS, "platform_bytes": self.m_plat,
                "pubkeys_ledger": self.m_lpk, "pubkeys_sgx": self.m_spk,
                "roots_ledger": self.m_lroots, "roots_sgx": self.m_sroots,
                "sgx_chain": self.m_sc, "sgx_targets": self.m_st}

    def signer_variants(self, plat):
        out = []
        fmts = ["legacy", "current"] if plat == "ledger" else ["current"]
        for fmt in fmts:
            for h in self.m_sh[fmt]:
                for ln in LENGTHS:
                    for p in (self.m_plat[plat] if fmt == "current" else ["-"]):
                        out.append((fmt, h, ln, p))
        return out

    def cases(self):
        cs = []
        for ch in self.m_lc:
            for tg in self.m_lt:
                for ui in self.m_ui:
                    cs.append({"kind": "ledger", "chain": ch, "targets": tg, "ui": ui})
        for ch in self.m_sc:
            for tg in self.m_st:
                for root in self.m_sroots:
                    cs.append({"kind": "sgx", "chain": ch, "targets": tg, "root": root})
        cs.append({"kind": "main", "plat": "ledger"})
        cs.append({"kind": "main", "plat": "sgx"})
        cs.append({"kind": "docs-sample"})
        return cs

    def replay(self, case, choices):
        return self.run_case(case, Stats())

    # ------------------------------------------------------------------------------------
    def run_case(self, case, stats):
        vs = []
        k = case["kind"]
        if k == "one":
            self.execute(case["plat"], case["v"], stats, vs, via_main=case.get("via_main", False))
        elif k == "ledger":
            self.forget_files()
            for sv in self.signer_variants("ledger"):
                for pk in self.m_lpk:
                    for root in self.m_lroots:
                        v = {"chain": case["chain"], "targets": case["targets"], "ui": case["ui"],
                             "signer": list(sv), "pubkeys": pk, "root": root}
                        self.execute("ledger", v, stats, vs)
        elif k == "sgx":
            self.forget_files()
            for sv in self.signer_variants("sgx"):
                for pk in self.m_spk:
                    v = {"chain": case["chain"], "targets": case["targets"], "signer": list(sv),
                         "pubkeys": pk, "root": case["root"]}
                    self.execute("sgx", v, stats, vs)
        elif k == "main":
            for v in self.main_sample(case["plat"]):
                self.execute(case["plat"], v, stats, vs, via_main=True)
        elif k == "docs-sample":
            self.docs_sample(stats, vs)
        return vs

    def main_sample(self, plat):
        """genuine + every single departure from it, through adm_*.main()"""
        if plat == "ledger":
            base = {"chain": "genuine", "targets": "both", "ui": "exact",
                    "signer": ["current", "ok", 0, "led"], "pubkeys": "same", "root": "right"}
            alts = {"chain": self.m_lc[1:], "targets": self.m_lt[1:], "ui": self.m_ui[1:],
                    "pubkeys": self.m_lpk[1:], "root": self.m_lroots[1:]}
            if self.thorough:
                alts = {"chain": L_CHAINS[1:], "targets": L_TARGETS[1:], "ui": list(UI_VARIANTS)[1:],
                        "pubkeys": list(self.pkv)[1:], "root": L_ROOTS[1:]}
        else:
            base = {"chain": "genuine", "targets": "quote", "signer": ["current", "ok", 0, "sgx"],
                    "pubkeys": "same", "root": "right"}
            alts = {"chain": self.m_sc[1:], "targets": self.m_st[1:], "pubkeys": self.m_spk[1:],
                    "root": self.m_sroots[1:]}
        out = [dict(base)]
        for dim, names in alts.items():
            for n in names:
                v = dict(base)
                v[dim] = n
                out.append(v)
        svs = self.signer_variants(plat)
        if self.thorough:
            fmts = ["legacy", "current"] if plat == "ledger" else ["current"]
            svs = [(f, h, ln, p) for f in fmts for h in SIGNER_HEADERS[f] for ln in LENGTHS
                   for p in (list(PLATFORMS) if f == "current" else ["-"])]
        for sv in svs:
            v = dict(base)
            v["signer"] = list(sv)
            out.append(v)
        return out

    # -- building one input ------------------------------------------------------------------
    def write_once(self, name, text):
        p = self._written.get(name)
        if p is None:
            p = os.path.join(self.dir, "%d-%s.json" % (os.getpid(), name))
            with open(p, "w") as f:
                f.write(text)
            self._written[name] = p
        return p

    def forget_files(self):
        for name, p in self._written.items():
            if isinstance(p, str) and p.startswith(self.dir):
                try:
                    os.unlink(p)
                except OSError:
                    pass
        self._written = {}

    def build_ledger(self, v):
        lg = self.lg
        hdr, key, lenmod, ui_class = UI_VARIANTS[v["ui"]]
        ui_msg = lg.ui_msg(hdr, key, lenmod)
        fmt, hname, ln, plat = v["signer"]
        shdr, s_class = SIGNER_HEADERS[fmt][hname]
        sg_msg = lg.signer_msg(fmt, shdr, ln, PLATFORMS.get(plat, b"led"))
        name = "L-%s-%s-%s-%s-%s-%d-%s" % (v["chain"], v["targets"], v["ui"], fmt, hname, ln, plat)
        if name not in self._written:
            cert = lg.certificate(v["chain"], v["targets"], ui_msg, sg_msg)
            self.write_once(name, json.dumps(cert, indent=2) + "\n")
        return self._written[name], ui_msg, sg_msg, ui_class, s_class, shdr

    def build_sgx(self, v):
        sg = self.sg
        fmt, hname, ln, plat = v["signer"]
        shdr, s_class = SIGNER_HEADERS["current"][hname]
        msg = sg.message(shdr, ln, PLATFORMS[plat], self.lg.keys_hash)
        name = "S-%s-%s-%s-%d-%s" % (v["chain"], v["targets"], hname, ln, plat)
        key = "quote:" + name
        if name not in self._written:
            cert, quote = sg.certificate(v["chain"], v["targets"], msg)
            self.write_once(name, json.dumps(cert, indent=2) + "\n")
            self._written[key] = quote
        return self._written[name], msg, self._written[key], s_class, shdr

    # -- reference predicate ------------------------------------------------------------------
    def keys_conjuncts(self, v, msg_hash, need_btc):
        """-> (failing conjunct | None, open?) for the public-keys file part."""
        text, keymap, is_open = self.pkv[v["pubkeys"]]
        if keymap is None or len(keymap) == 0:
            return "pubkeys-file-unusable", False
        if need_btc and L.UI_PATH not in keymap:
            return ("btc-path-missing", False) if not is_open else (None, True)
        h = L.pubkeys_hash(keymap)
        if h is None:
            return "pubkeys-file-unusable", False
        if msg_hash is not None and h != msg_hash:
            return "keys-hash", False
        return None, is_open

    def oracle_ledger(self, v, ui_msg, sg_msg, ui_class, s_class, shdr):
        """-> (verdict ok|err|open, first failing conjunct)"""
        lg = self.lg
        opens = []
        root_hex, root_right = self.lroots[v["root"]]
        text, keymap, pk_open = self.pkv[v["pubkeys"]]
        fails = []
        if root_hex is not None and (k1.parse_pub(_unhex(root_hex)) is None):
            fails.append("root-malformed")
        if keymap is None or len(keymap) == 0 or L.pubkeys_hash(keymap) is None:
            fails.append("pubkeys-file-unusable")
        elif L.UI_PATH not in keymap:
            if pk_open:
                opens.append("btc-path-spelling")
            else:
                fails.append("btc-path-missing")
        ch, tg = v["chain"], v["targets"]
        if tg in ("no-ui", "ui-untargeted"):
            fails.append("ui-target-missing")
        elif not root_right or ch in ("device-link", "attestation-link", "ui-link", "ui-untweaked"):
            fails.append("ui-chain")
        if ui_class == "foreign":
            fails.append("ui-header")
        elif ui_class == "open":
            opens.append("ui-variant")
        if keymap and L.UI_PATH in keymap and ui_class != "foreign":
            a, b = L.offsets(len(L.UI_HEADER), L.UI_FIELDS)["public_key"]
            if ui_msg[a:b] != k1.compressed(keymap[L.UI_PATH]):
                fails.append("ui-key")
        if tg in ("no-signer", "signer-untargeted"):
            fails.append("signer-target-missing")
        elif not root_right or ch in ("device-link", "attestation-link", "signer-link",
                                      "signer-foreign-tweak"):
            fails.append("signer-chain")
        fmt, hname, ln, plat = v["signer"]
        if s_class == "foreign":
            fails.append("signer-header")
        elif s_class == "open":
            opens.append("signer-version")
        fields = L.LEGACY_FIELDS if fmt == "legacy" else L.POWHSM_FIELDS
        if ln != 0:
            fails.append("signer-length")
        elif keymap and L.pubkeys_hash(keymap) is not None:
            if L.field(sg_msg, len(shdr), fields, "public_keys_hash") != L.pubkeys_hash(keymap):
                fails.append("keys-hash")
        if fmt == "current" and plat != "led":
            opens.append("platform")
        if fails:
            return "err", fails[0], fails
        if opens:
            return "open", opens[0], opens
        return "ok", None, []

    def oracle_sgx(self, v, msg, s_class, shdr):
        fails, opens = [], []
        _, kind = self.sroots[v["root"]]
        if kind in ("malformed", "none", "url"):
            fails.append("root-" + kind)
        elif kind == "wrong":
            fails.append("chain-root")
        elif kind == "open":
            opens.append("root-not-selfsigned")
        text, keymap, pk_open = self.pkv[v["pubkeys"]]
        if keymap is None or len(keymap) == 0 or L.pubkeys_hash(keymap) is None:
            fails.append("pubkeys-file-unusable")
        if v["targets"] != "quote":
            fails.append("quote-target-missing")
        if v["chain"] != "genuine":
            fails.append("chain:" + v["chain"])
        fmt, hname, ln, plat = v["signer"]
        if s_class == "foreign":
            fails.append("powhsm-header")
        elif s_class == "open":
            opens.append("powhsm-version")
        if ln != 0:
            fails.append("powhsm-length")
        elif keymap and L.pubkeys_hash(keymap) is not None:
            if L.field(msg, len(shdr), L.POWHSM_FIELDS, "public_keys_hash") != L.pubkeys_hash(keymap):
                fails.append("keys-hash")
        if plat != "sgx":
            opens.append("platform")
        if fails:
            return "err", fails[0], fails
        if opens:
            return "open", opens[0], opens
        return "ok", None, []

    # -- one execution -----------------------------------------------------------------------
    def execute(self, plat, v, stats, vs, via_main=False):
        stats.evaluations += 1
        if plat == "ledger":
            cert_path, ui_msg, sg_msg, ui_class, s_class, shdr = self.build_ledger(v)
            verdict, reason, allr = self.oracle_ledger(v, ui_msg, sg_msg, ui_class, s_class, shdr)
            root = self.lroots[v["root"]][0]
            mod = self.VL
        else:
            cert_path, sg_msg, quote, s_class, shdr = self.build_sgx(v)
            verdict, reason, allr = self.oracle_sgx(v, sg_msg, s_class, shdr)
            root = self.sroots[v["root"]][0]
            mod = self.VS
        pk_path = self.pk_paths[v["pubkeys"]]
        net = _NoNetwork()
        buf = io.StringIO()
        outcome, exc_class, exc_text = "ok", None, ""
        S.FixedClock.current = S.CLOCK
        with patched((self.AU, "requests", net), (self.CV2, "datetime", S.FixedClock)):
            with contextlib.redirect_stdout(buf):
                try:
                    if via_main:
                        self.run_main(plat, cert_path, pk_path, root)
                    else:
                        mod.do_verify_attestation(options_for(plat, cert_path, pk_path, root))
                except SystemExit as e:
                    if e.code not in (0, None):
                        outcome, exc_class, exc_text = "err", "exit-%s" % (e.code,), ""
                except BaseException as e:   # noqa
                    outcome, exc_class, exc_text = "err", type(e).__name__, str(e)
        if exc_class is not None and exc_class != "AdminError" and not exc_class.startswith("exit-"):
            stats.bump("non_admin_errors")
        stem = re.sub(r"[0-9a-f]{8,}|/[^ \"]+", "#", exc_text)[:48]
        stats.observe((plat, verdict, reason, outcome, exc_class, stem, via_main))
        stats.sample({"platform": plat, "variant": v, "oracle": [verdict, reason], "outcome": outcome,
                      "error": exc_text[:120]})
        case = {"kind": "one", "plat": plat, "v": v, "via_main": via_main}
        if verdict == "open":
            stats.dont_care += 1
        if verdict == "err" and outcome == "ok":
            vs.append(Violation("C08", "C08:%s:accepted-despite:%s" % (plat, reason), case, None,
                                {"outcome": "finished without error", "stdout": buf.getvalue()[-1500:]},
                                {"outcome": "error", "failing_conjuncts": allr},
                                "finishes without error only when every conjunct holds"))
            return
        if verdict == "ok" and outcome != "ok":
            vs.append(Violation("C08", "C08:%s:refused-well-formed:%s:%s" % (plat, exc_class, stem),
                                case, None, {"outcome": "error", "exception": exc_class,
                                             "text": exc_text[:600]},
                                {"outcome": "finishes without error"},
                                "all conjuncts hold"))
            return
        if outcome != "ok":
            return
        # printed values == bytes at the documented offsets of the signed messages
        sections = L.parse_output(buf.getvalue())
        text, keymap, _ = self.pkv[v["pubkeys"]]
        bad = []
        if plat == "ledger":
            bad += self.printed_ui(sections, v, ui_msg)
            bad += self.printed_signer(sections, "Signer verified", v, sg_msg, shdr, keymap,
                                       {"Installed Signer hash": self.lg.signer_hash_installed.hex()},
                                       "Installed Signer version")
        else:
            rb = quote[L.QUOTE_HEADER_LEN:]
            bad += self.printed_signer(
                sections, "powHSM verified", v, sg_msg, shdr, keymap,
                {"Installed powHSM MRENCLAVE": rb[L.RB_MRENCLAVE[0]:L.RB_MRENCLAVE[1]].hex(),
                 "Installed powHSM MRSIGNER": rb[L.RB_MRSIGNER[0]:L.RB_MRSIGNER[1]].hex()},
                "Installed powHSM version")
        for label, got, want in bad:
            vs.append(Violation("C08", "C08:%s:printed:%s" % (plat, label), case, None,
                                {"printed": got, "stdout": buf.getvalue()[-1500:]},
                                {"bytes_at_documented_offset": want},
                                "printed values are those at the documented offsets"))

    def run_main(self, plat, cert_path, pk_path, root):
        import importlib
        m = importlib.import_module("adm_ledger" if plat == "ledger" else "adm_sgx")
        argv = [m.__name__ + ".py", "verify_attestation"]
        if cert_path is not None:
            argv += ["-t", cert_path]
        if pk_path is not None:
            argv += ["-b", pk_path]
        if root is not None:
            argv += ["-r", root]
        with patched((sys, "argv", argv)):
            m.main()

    def printed_ui(self, sections, v, ui_msg):
        s = L.section(sections, "UI verified")
        if s is None:
            return [("ui-section", None, "a 'UI verified with:' section")]
        hl = len(UI_VARIANTS[v["ui"]][0])
        f = lambda n: L.field(ui_msg, hl, L.UI_FIELDS, n)     # noqa: E731
        want = {"UD value": f("ud_value").hex(),
                "Derived public key (%s)" % L.UI_PATH: f("public_key").hex(),
                "Authorized signer hash": f("signer_hash").hex(),
                "Installed UI hash": self.lg.ui_hash.hex(),
                "Installed UI version": ui_msg[hl - 3:hl].decode("latin-1")}
        if len(f("signer_iteration")) == 2:
            want["Authorized signer iteration"] = str(int.from_bytes(f("signer_iteration"), "big"))
        return [(k, s[1].get(k), w) for k, w in want.items() if s[1].get(k) != [w]]

    def printed_signer(self, sections, title, v, msg, shdr, keymap, fixed, version_label):
        s = L.section(sections, title)
        if s is None:
            return [("signer-section", None, "a '%s' section" % title)]
        fmt = v["signer"][0]
        fields = L.LEGACY_FIELDS if fmt == "legacy" else L.POWHSM_FIELDS
        f = lambda n: L.field(msg, len(shdr), fields, n)       # noqa: E731
        want = dict(fixed)
        want["Hash"] = f("public_keys_hash").hex()
        vpos = shdr.index(b":", 4) + 1 if fmt == "legacy" else len(b"POWHSM:")
        want[version_label] = shdr[vpos:vpos + 3].decode("latin-1")
        for p, raw in keymap.items():
            want[p] = k1.compressed(raw).hex()
        extra = {"Platform": None, "UD value": None, "Best block": None,
                 "Last transaction signed": None, "Timestamp": None}
        if fmt == "current":
            try:
                extra["Platform"] = f("platform").decode("ascii")
            except UnicodeDecodeError:
                extra["Platform"] = None
            extra["UD value"] = f("ud_value").hex()
            extra["Best block"] = f("best_block").hex()
            extra["Last transaction signed"] = f("last_signed_tx").hex()
            extra["Timestamp"] = str(int.from_bytes(f("timestamp"), "big"))
        bad = [(k, s[1].get(k), w) for k, w in want.items() if s[1].get(k) != [w]]
        for k, w in extra.items():
            got = s[1].get(k)
            if w is None and got is not None and fmt == "legacy":
                bad.append((k, got, "(not printed: the legacy message has no such field)"))
            elif w is not None and got != [w]:
                bad.append((k, got, w))
        return bad

    # -- the document's own version-1 sample under the default root -------------------------------
    def docs_sample(self, stats, vs):
        v1, _, _, _ = L.doc_samples()
        p = self.write_once("docs-v1", json.dumps(v1))
        for root in (None,):
            stats.evaluations += 1
            buf = io.StringIO()
            outcome = "ok"
            with contextlib.redirect_stdout(buf):
                try:
                    self.VL.do_verify_attestation(
                        options_for("ledger", p, self.pk_paths["same"], root))
                except BaseException as e:   # noqa
                    outcome = type(e).__name__
            stats.observe(("docs-sample", outcome))
            # its signer link does not verify under Ledger's key (reference walk) and the keys
            # are not the operator's: must end in an error
            if outcome == "ok":
                vs.append(Violation("C08", "C08:ledger:accepted-despite:docs-sample-default-root",
                                    {"kind": "docs-sample"}, None, {"outcome": "ok"},
                                    {"outcome": "error"}, "default root"))


def _unhex(s):
    try:
        return bytes.fromhex(s)
    except ValueError:
        return b""


CHECK = C08
