"""C08 - the Ledger and SGX verify_attestation commands vouch only for the operator's keys
and a well-formed message.

Full product of small variant menus (certificate chain x targets x UI message x signer /
powHSM message {format, header, length and extension bytes, platform} x public-keys file x root
of trust), every variant really signed with keys owned by the harness, through the real
``do_verify_attestation`` of admin/verify_ledger_attestation.py and
admin/verify_sgx_attestation.py (and, for a sample, through adm_ledger.main / adm_sgx.main).
All calls of one case happen in one process and name the SAME three file paths, whose contents
are replaced between calls: every verdict has to be a function of the current contents
(histories); ordered pairs of variants per file are run explicitly as well.  Boundary byte
values (ASCII digit, ':', newline, 0x00, 0xff) are placed right after every textual header and
at the end of every message.
Oracle: reference predicate of the statement + offset table of docs/attestation.md.
"""
import argparse
import atexit
import contextlib
import io
import json
import os
import re
import shutil
import sys
import tempfile

from ..framework import Check, Violation
from ..xplore import HarnessError, Stats
from ..env import Rng, patched
from ..att import k1, layout as L, sgx as S, seams
from ..att.ledgergen import LedgerGen, pubkeys_variants, CHAIN_VARIANTS as L_CHAINS
from ..att.sgxgen import SgxGen, CHAIN_VARIANTS as S_CHAINS, EXTRAS as S_EXTRAS, add_extra

# -- menus (name -> value); the quick tier takes the names listed in Q_* ---------------------
EDGE_BYTES = [0x30, 0x39, 0x3a, 0x0a, 0x00, 0x07, 0xff, 0x2e]
# two-byte beginnings that could CONTINUE a textual header's own grammar ('.7', '.0', '::', '5.')
EDGE_PAIRS = ["2e37", "2e30", "3a3a", "352e"]
UI_VARIANTS = {
    # name: (header, attested key, length change, class) ; class: ok | foreign | open
    "exact": (L.UI_HEADER, "own", 0, "ok"),
    "other-key": (L.UI_HEADER, "other", 0, "ok"),
    "foreign-prefix": (b"HSM:UX:5.4", "own", 0, "foreign"),
    "foreign-powhsm": (b"POWHSM:5.4", "own", 0, "foreign"),
    "foreign-lowercase": (b"hsm:ui:5.4", "own", 0, "foreign"),
    "foreign-shifted": (b"\x00HSM:UI:5.4", "own", 0, "foreign"),
    "foreign-noversion": (b"HSM:UI:" + b"\xa5\x5a\xa5", "own", 0, "foreign"),
    "version-5.3": (b"HSM:UI:5.3", "own", 0, "open"),
    "version-6.0": (b"HSM:UI:6.0", "own", 0, "open"),
    "version-5x4": (b"HSM:UI:5x4", "own", 0, "open"),
    "short-1": (L.UI_HEADER, "own", -1, "open"),
    "long+1": (L.UI_HEADER, "own", 1, "open"),
}
# "edge-XX[YY]": documented header, operator's key, UD value starting with the byte(s) and
# iteration ending in them (the bytes next to the header / at the end of the message)
UI_EDGES = ["%02x" % _b for _b in EDGE_BYTES] + EDGE_PAIRS
for _e in UI_EDGES:
    UI_VARIANTS["edge-" + _e] = (L.UI_HEADER, "own", 0, "ok")
T_UI = ["exact", "other-key", "foreign-prefix", "foreign-lowercase", "foreign-noversion",
        "version-5.3", "version-6.0", "version-5x4"]
Q_UI = ["exact", "other-key", "foreign-prefix", "foreign-lowercase", "version-5.3", "version-6.0"]

SIGNER_HEADERS = {
    "legacy": {"ok": (L.LEGACY_HEADER, "ok"), "foreign": (b"HSM:SIGNAR:5.3", "foreign"),
               "foreign-ui": (L.UI_HEADER + b":::.", "foreign"),
               "version-6.0": (b"HSM:SIGNER:6.0", "open"), "version-2.1": (b"HSM:SIGNER:2.1", "open")},
    "current": {"ok": (L.POWHSM_HEADER, "ok"), "foreign": (b"POWHSN:5.4::", "foreign"),
                "foreign-colon": (b"POWHSM:5.4:_", "foreign"),
                "foreign-sgxstyle": (b"powhsm:5.4::", "foreign"),
                "version-5.9": (b"POWHSM:5.9::", "open"), "version-6.0": (b"POWHSM:6.0::", "open")},
}
Q_SIGNER_HEADERS = {"legacy": ["ok", "foreign", "version-6.0"],
                    "current": ["ok", "foreign", "version-5.9"]}
T_SIGNER_HEADERS = {"legacy": ["ok", "foreign", "foreign-ui", "version-6.0"],
                    "current": ["ok", "foreign", "foreign-colon", "version-5.9", "version-6.0"]}
# length change and the bytes the extension ends with
LENGTHS = {"0": (0, None), "-1": (-1, None), "+1:0a": (1, b"\x0a"), "+1:37": (1, b"7"),
           "+1:ff": (1, b"\xff"), "+2:ff0a": (2, b"\xff\x0a"), "+32": (32, None),
           "+1:00": (1, b"\x00"), "+1:0d": (1, b"\x0d"), "+1:20": (1, b" "), "+1:3a": (1, b":"),
           "+32:0a": (32, b"\x0a"), "-32": (-32, None)}
Q_LENGTHS = list(LENGTHS)[:7]
T_LENGTHS = list(LENGTHS)[:8] + ["+32:0a"]    # the rest: boundary cases and star sample
E_LENGTHS = ["0", "-1", "+1:0a", "+1:00", "+32:0a"]         # for the boundary-value cases
PLATFORMS = {"led": b"led", "sgx": b"sgx", "xyz": b"xyz", "nonascii": b"\xff\xfe\x80"}
Q_PLATFORMS = {"ledger": ["led", "xyz"], "sgx": ["sgx", "xyz"]}

L_TARGETS = ["both", "no-ui", "no-signer", "both-reversed", "ui-untargeted", "signer-untargeted"]
Q_L_TARGETS = L_TARGETS[:3]
T_L_TARGETS = L_TARGETS[:4]
S_TARGETS = ["quote", "none", "no-quote-element", "attestation-only"]
Q_S_TARGETS = S_TARGETS[:3]
Q_L_CHAINS = L_CHAINS[:5]
Q_S_CHAINS = S_CHAINS[:8]
Q_PUBKEYS = ["same", "mixed-shuffled", "one-different", "btc-different", "one-missing",
             "one-extra"]
T_PUBKEYS = Q_PUBKEYS + ["paths-swapped", "renamed-same-order", "key-not-on-curve", "btc-missing"]
Q_S_PUBKEYS = ["same", "mixed-shuffled", "one-different", "one-missing"]
T_S_PUBKEYS = Q_S_PUBKEYS + ["one-extra", "renamed-same-order", "paths-swapped", "key-not-on-curve",
                             "empty-object", "no-file"]
L_ROOTS = ["right", "wrong", "malformed-hex", "none", "right-compressed", "malformed-point",
           "empty", "device-key", "right-uppercase"]
Q_L_ROOTS = L_ROOTS[:4]
T_L_ROOTS = L_ROOTS[:6]
T_L_CHAINS = L_CHAINS[:7]        # the high-s variants: star sample and ordered pairs
S_ROOTS = ["right", "wrong", "garbage-pem", "none", "ca-as-root", "empty-file", "url",
           "right-key-not-selfsigned", "right-other-hierarchy"]
Q_S_ROOTS = S_ROOTS[:4]


def options_for(plat, cert_path, pubkeys_path, root):
    """The namespace adm_ledger.py / adm_sgx.py hand to the command (all their ``dest``s)."""
    d = dict(operation="verify_attestation", pin=None, new_pin=None, any_pin=False,
             output_file_path=None, no_unlock=False, attestation_ud_source="https://public-node.rsk.co",
             attestation_certificate_file_path=cert_path, root_authority=root,
             pubkeys_file_path=pubkeys_path, verbose=False)
    if plat == "ledger":
        d.update(no_exec=False, signer_authorization_file_path=None)
    else:
        d.update(sgx_port=7777, sgx_host="localhost")
    return argparse.Namespace(**d)


def put(path, content):
    """make the file at ``path`` hold ``content`` (None: no such file)"""
    if content is None:
        if os.path.exists(path):
            os.unlink(path)
        return
    with open(path, "wb") as f:
        f.write(content if isinstance(content, bytes) else content.encode())


class C08(Check):
    id = "C08"
    level = "exploration"
    rule = ("full product of variant menus: certificate chain {genuine, each link broken once} x "
            "targets {all, each one missing} x UI message {documented header, foreign headers, other "
            "versions, other attested key} x signer/powHSM message {legacy, current} x header {ok, "
            "foreign, other version} x length {exact,-1,+1 with last byte 0a/'7'/ff,+2 ending 0a,"
            "+32} x platform bytes x public-keys file {same keys in other order/encoding, key "
            "different, missing, extra, renamed paths, malformed} x root of trust {right, wrong, "
            "malformed, default}; SGX files with an extra element named like the format's root word "
            "/ the other format's / empty / another name, shipping the chain's own or another root, "
            "chain under the operator's or a foreign root; key sets with paths that sort differently as strings and as "
            "numbers; SGX chains whose validity starts/ends within hours of now under process time "
            "zones UTC, UTC-3, UTC+5:30; every printed field also with first byte 00, first nibble 0, all "
            "zero, all ff; boundary bytes (0,9,:,newline,00,07,ff) right after each textual "
            "header and at the end of each message x lengths x keys x root; all really signed "
            "(secp256k1 via ecdsa, P-256/X.509 via cryptography); Ledger and SGX commands; all calls "
            "of a case in one process on the same three paths with replaced contents, plus every "
            "ordered pair of variants per file. Distinct = (platform, oracle verdict, first failing "
            "conjunct, outcome, exception class + text stem).")
    assumptions = [
        "'expected headers' = HSM:UI:5.4, POWHSM:5.4:: (docs/attestation.md) and HSM:SIGNER:5.3 for "
        "the legacy format (only source: upstream test); other version digits, platform ids other "
        "than the platform's own, UI messages of another length, a BTC path under another spelling "
        "and a root certificate with the right key that is not self-signed are left open (dont_care)",
        "'in path order' = lexicographic order of the UTF-8 path strings (docs/attestation.md)",
        "any exception leaving do_verify_attestation counts as 'ends in an error' (adm_*.py turn "
        "every exception into a non-zero exit code)",
        "field values are seeded, one value per field, all distinct; boundary values replace the "
        "first/last byte of a field; key sets whose hash starts/ends with a given byte are found by "
        "search over the last wallet key",
        "requests.get is replaced by a function that raises: a URL root is an error case",
        "X.509 validity: the reference instant is noon UTC of the current day, owned through the "
        "module's datetime and, with margins of a day, also true for any real clock",
        "state kept between calls is observed only within one process and one case (the same three "
        "paths); the verdict of a call must equal the verdict of the same call made alone",
    ]
    trusted_base = ["ecdsa (secp256k1 signing of the version-1 hierarchy)",
                    "cryptography/OpenSSL (P-256 signing, X.509 generation)",
                    "verif/att/layout.py offset tables (calibrated on docs/attestation.md samples)",
                    "/verif/shims/bitcoin (imported transitively by admin.misc)"]

    # ------------------------------------------------------------------------------------
    def prepare(self):
        import admin.verify_ledger_attestation as VL
        import admin.verify_sgx_attestation as VS
        import admin.attestation_utils as AU
        import admin.certificate_v2 as CV2
        from admin.misc import AdminError
        self.VL, self.VS, self.AU, self.CV2, self.AdminError = VL, VS, AU, CV2, AdminError
        # seams, for the whole process: no network through any HTTP client, the X.509 clock
        seams.install_no_network()
        seams.install_clock(CV2, S.CLOCK)
        L.calibrate_docs()
        L.calibrate_firmware_order()
        S.calibrate_recorded_envelope()
        t = self.thorough
        self.m_ui = T_UI if t else Q_UI
        self.m_sh = T_SIGNER_HEADERS if t else Q_SIGNER_HEADERS
        self.m_len = T_LENGTHS if t else Q_LENGTHS
        self.m_elen = list(LENGTHS) if t else E_LENGTHS
        self.m_plat = ({"ledger": list(PLATFORMS), "sgx": list(PLATFORMS)} if t else Q_PLATFORMS)
        self.m_lt = T_L_TARGETS if t else Q_L_TARGETS
        self.m_st = S_TARGETS if t else Q_S_TARGETS
        self.m_lc = T_L_CHAINS if t else Q_L_CHAINS
        self.m_sc = S_CHAINS[:10] if t else Q_S_CHAINS     # the rest: star sample and pairs
        self.m_lroots = T_L_ROOTS if t else Q_L_ROOTS
        self.m_sroots = S_ROOTS if t else Q_S_ROOTS
        self.lgs = {p: LedgerGen(Rng("c08-ledger"), p) for p in L.VALUE_PROFILES}
        self.sgs = {p: SgxGen(Rng("c08-sgx"), profile=p) for p in L.VALUE_PROFILES}
        self.lg, self.sg = self.lgs["seeded"], self.sgs["seeded"]
        self.keysets = self.lg.edge_keysets(
            Rng("c08-keysets"), EDGE_BYTES,
            {"kh-first-2e3x": lambda dg: dg[0] == 0x2e and 0x30 <= dg[1] <= 0x39})
        self.pkvs = {"base": pubkeys_variants(self.lg)}
        self.m_lpk = T_PUBKEYS if t else Q_PUBKEYS
        self.m_spk = T_S_PUBKEYS if t else Q_S_PUBKEYS
        if k1.parse_pub(b"\x04" + bytes([0x11]) * 64) is not None:
            raise HarnessError("the 'not on curve' key is on the curve")
        # reference walk agrees with the construction of every chain variant
        for ch in L_CHAINS:
            cert = self.lg.certificate(ch, "both", self.lg.ui_msg(),
                                       self.lg.signer_msg("current", L.POWHSM_HEADER))
            if ch.endswith("-high-s"):
                continue     # the reference walk (ecdsa) accepts N - s; libsecp256k1 must not
            want_ui = ch not in ("device-link", "attestation-link", "ui-link", "ui-untweaked")
            want_sg = ch not in ("device-link", "attestation-link", "signer-link",
                                 "signer-foreign-tweak")
            got = (self.lg.reference_chain_ok(cert, "ui", self.lg.issuer.pub65),
                   self.lg.reference_chain_ok(cert, "signer", self.lg.issuer.pub65))
            if got != (want_ui, want_sg):
                raise HarnessError("generator/reference disagree on chain variant %s: %r" % (ch, got))
            if self.lg.reference_chain_ok(cert, "ui", self.lg.other_root.pub65):
                raise HarnessError("chain valid under the wrong root")
        base = "/dev/shm" if os.path.isdir("/dev/shm") else None
        self.dir = tempfile.mkdtemp(prefix="verif-c08-", dir=base)
        owner = os.getpid()

        def cleanup(d=self.dir):
            if os.getpid() == owner:
                shutil.rmtree(d, ignore_errors=True)
        atexit.register(cleanup)
        # SGX roots of trust: name -> (what goes into the file | None, kind, hierarchy)
        # name -> (file content | None, kind, hierarchy the chain is signed under unless the
        #          variant says otherwise, hierarchy whose root this is)
        owners = {"right": "h", "wrong": "other", "right-key-not-selfsigned": "h"}
        self.sroots = {n: (c, k, "h", owners.get(n)) for n, (c, k) in self.sg.roots().items()}
        self.sroots["right-other-hierarchy"] = (S.pem(self.sg.other.root_der), "right", "other",
                                                "other")
        self.sroots["none"] = (None, "none", "h", None)
        self.sroots["url"] = (None, "url", "h", None)
        lg = self.lg
        self.lroots = {
            "right": (lg.issuer.pub65.hex(), True), "right-compressed": (lg.issuer.pub33.hex(), True),
            "right-uppercase": (lg.issuer.pub65.hex().upper(), True),
            "wrong": (lg.other_root.pub65.hex(), False), "device-key": (lg.device.pub65.hex(), False),
            "malformed-hex": ("zz" + lg.issuer.pub65.hex()[2:], False),
            "malformed-point": ("04" + "11" * 64, False), "empty": ("", False), "none": (None, False),
        }
        self._built = {}
        self._keyinfo = {}
        self._compressed = {}
        self._serial = 0

    def pkv(self, keyset):
        if keyset not in self.pkvs:
            paths, wallet, _ = self.keysets[keyset]
            self.pkvs[keyset] = pubkeys_variants(self.lg, wallet, paths)
        return self.pkvs[keyset]

    def keyinfo(self, v):
        """-> (key map | None, open?, reference keys hash | None, compressed BTC key | None)"""
        k = (v.get("keyset", "base"), v["pubkeys"])
        if k not in self._keyinfo:
            text, keymap, is_open = self.pkv(k[0])[k[1]]
            h = L.pubkeys_hash(keymap) if keymap else None
            btc = k1.compressed(keymap[L.UI_PATH]) if keymap and L.UI_PATH in keymap else None
            self._keyinfo[k] = (keymap, is_open, h, btc)
        return self._keyinfo[k]

    def bounds(self):
        return {"ledger": {"chains": len(self.m_lc), "targets": len(self.m_lt), "ui": len(self.m_ui),
                           "signer_messages": len(self.signer_variants("ledger")),
                           "pubkeys_files": len(self.m_lpk), "roots": len(self.m_lroots)},
                "sgx": {"chains": len(self.m_sc), "targets": len(self.m_st),
                        "messages": len(self.signer_variants("sgx")),
                        "pubkeys_files": len(self.m_spk), "roots": len(self.m_sroots)},
                "boundary_bytes": ["%02x" % b for b in EDGE_BYTES],
                "keysets": len(self.keysets), "product": "complete",
                "histories": "all calls of a case on the same paths; all ordered pairs per file"}

    def alphabets(self):
        return {"ledger_chain": self.m_lc, "ledger_targets": self.m_lt, "ui": self.m_ui,
                "signer_headers": self.m_sh, "lengths": self.m_len, "platform_bytes": self.m_plat,
                "pubkeys_ledger": self.m_lpk, "pubkeys_sgx": self.m_spk,
                "roots_ledger": self.m_lroots, "roots_sgx": self.m_sroots,
                "sgx_chain": self.m_sc, "sgx_targets": self.m_st, "keysets": sorted(self.keysets)}

    def signer_variants(self, plat, lengths=None, headers=None, platforms=None):
        out = []
        fmts = ["legacy", "current"] if plat == "ledger" else ["current"]
        for fmt in fmts:
            for h in (headers or self.m_sh)[fmt]:
                for ln in (lengths or self.m_len):
                    for p in ((platforms or self.m_plat[plat]) if fmt == "current" else ["-"]):
                        out.append((fmt, h, ln, p))
        return out

    def cases(self):
        cs = []
        for ch in self.m_lc:
            for tg in self.m_lt:
                for ui in self.m_ui:
                    cs.append({"kind": "ledger", "chain": ch, "targets": tg, "ui": ui})
        for ch in self.m_sc:
            for tg in self.m_st:
                for h in self.m_sh["current"]:
                    cs.append({"kind": "sgx", "chain": ch, "targets": tg, "header": h})
        for ks in sorted(self.keysets):
            for e in UI_EDGES:
                cs.append({"kind": "edge", "plat": "ledger", "keyset": ks, "edge": e})
            cs.append({"kind": "edge", "plat": "sgx", "keyset": ks})
        for zone in seams.ZONES:
            cs.append({"kind": "zones", "zone": zone})
        for hier in ("h", "other"):
            cs.append({"kind": "extras", "hier": hier, "via_main": False})
            cs.append({"kind": "extras", "hier": hier, "via_main": True})
        cs.append({"kind": "extras", "hier": "ledger", "via_main": False})
        for prof in L.VALUE_PROFILES[1:]:
            cs.append({"kind": "values", "plat": "ledger", "values": prof})
            cs.append({"kind": "values", "plat": "sgx", "values": prof})
        for plat, dims in (("ledger", ["chain", "pubkeys", "root", "ui", "signer"]),
                           ("sgx", ["chain", "pubkeys", "root", "signer"])):
            for dim in dims:
                cs.append({"kind": "pairs", "plat": plat, "dim": dim})
        cs.append({"kind": "main", "plat": "ledger"})
        cs.append({"kind": "main", "plat": "sgx"})
        cs.append({"kind": "docs-sample"})
        return cs

    # ------------------------------------------------------------------------------------
    def variants(self, case):
        """the executions of a product / boundary case, in order: (platform, variant)"""
        k = case["kind"]
        if k == "ledger":
            for sv in self.signer_variants("ledger"):
                for pk in self.m_lpk:
                    for root in self.m_lroots:
                        yield "ledger", {"chain": case["chain"], "targets": case["targets"],
                                         "ui": case["ui"], "signer": list(sv), "pubkeys": pk,
                                         "root": root}
        elif k == "sgx":
            for sv in self.signer_variants("sgx", headers={"current": [case["header"]]}):
                for pk in self.m_spk:
                    for root in self.m_sroots:
                        yield "sgx", {"chain": case["chain"], "targets": case["targets"],
                                      "signer": list(sv), "pubkeys": pk, "root": root}
        elif k == "edge" and case["plat"] == "ledger":
            svs = self.signer_variants("ledger", self.m_elen, {"legacy": ["ok"], "current": ["ok"]},
                                       ["led"])
            for sv in svs:
                # the timestamp's last byte varies with the standard key set only
                tss = [None] + EDGE_BYTES if sv[0] == "current" and case["keyset"] == "base" else [None]
                for ts in tss:
                    for pk in ("same", "one-different"):
                        for root in ("right", "wrong"):
                            yield "ledger", {"chain": "genuine", "targets": "both",
                                             "ui": "edge-" + case["edge"], "signer": list(sv),
                                             "pubkeys": pk, "root": root,
                                             "keyset": case["keyset"], "ts": ts}
        elif k == "edge":
            for sv in self.signer_variants("sgx", self.m_elen, {"current": ["ok"]}, ["sgx"]):
                for ts in ([None] + EDGE_BYTES if case["keyset"] == "base" else [None]):
                    for pk in ("same", "one-different"):
                        for root in ("right", "wrong"):
                            yield "sgx", {"chain": "genuine", "targets": "quote", "signer": list(sv),
                                          "pubkeys": pk, "root": root, "keyset": case["keyset"],
                                          "ts": ts}
        elif k == "extras" and case["hier"] == "ledger":
            for extra in ("v1-root-word", "v2-root-word"):
                for ch in ("genuine", "device-link"):
                    for root in ("right", "wrong"):
                        v = self.base_variant("ledger")
                        v.update({"extra": extra, "chain": ch, "root": root})
                        yield "ledger", v
        elif k == "extras":
            # additional elements whose names collide with reserved words, shipping the root the
            # chain was (or was not) signed under; chain under the operator's or a foreign root
            for extra in [None] + S_EXTRAS:
                for root in ("right", "wrong"):
                    for ln in ("0", "+1:0a"):
                        for pk in ("same", "one-different"):
                            v = self.base_variant("sgx")
                            v.update({"hier": case["hier"], "extra": extra, "root": root,
                                      "pubkeys": pk, "signer": ["current", "ok", ln, "sgx"]})
                            yield "sgx", v
        elif k == "values":
            # every printed field starts with 00 / a zero nibble / is all zero / all ff
            plat = case["plat"]
            own = "led" if plat == "ledger" else "sgx"
            for ks in sorted(self.keysets):
                for fmt in (["legacy", "current"] if plat == "ledger" else ["current"]):
                    for ui in (["exact", "edge-00", "edge-07", "edge-2e37"] if plat == "ledger"
                               else ["-"]):
                        for ln in ("0", "+1:00"):
                            for pk in ("same", "one-different"):
                                v = self.base_variant(plat)
                                v.update({"signer": [fmt, "ok", ln, own if fmt == "current" else "-"],
                                          "pubkeys": pk, "keyset": ks, "values": case["values"]})
                                if plat == "ledger":
                                    v["ui"] = ui
                                yield plat, v
        elif k == "edge":
            for sv in self.signer_variants("sgx", self.m_elen, {"current": ["ok"]}, ["sgx"]):
                for ts in [None] + EDGE_BYTES:
                    for pk in ("same", "one-different"):
                        for root in ("right", "wrong"):
                            yield "sgx", {"chain": "genuine", "targets": "quote", "signer": list(sv),
                                          "pubkeys": pk, "root": root, "keyset": case["keyset"],
                                          "ts": ts}

    def base_variant(self, plat):
        if plat == "ledger":
            return {"chain": "genuine", "targets": "both", "ui": "exact",
                    "signer": ["current", "ok", "0", "led"], "pubkeys": "same", "root": "right"}
        return {"chain": "genuine", "targets": "quote", "signer": ["current", "ok", "0", "sgx"],
                "pubkeys": "same", "root": "right"}

    def pair_values(self, plat, dim):
        if dim == "chain":
            return list(L_CHAINS if plat == "ledger" else S_CHAINS)
        if dim == "pubkeys":
            vals = list(self.m_lpk if plat == "ledger" else self.m_spk)
            return vals + [x for x in ("no-file",) if x not in vals]
        if dim == "root":
            return list(L_ROOTS if plat == "ledger" else S_ROOTS)
        if dim == "ui":
            return list(self.m_ui) + ["edge-30", "edge-0a", "edge-2e37"]
        fmts = ["legacy", "current"] if plat == "ledger" else ["current"]
        own = "led" if plat == "ledger" else "sgx"
        return [[f, "ok", ln, own if f == "current" else "-"] for f in fmts
                for ln in ("0", "-1", "+1:0a", "+32")]

    def run_case(self, case, stats):
        vs = []
        k = case["kind"]
        if k == "one":
            self.execute(case["plat"], case["v"], stats, vs, via_main=case.get("via_main", False))
        elif k in ("ledger", "sgx", "edge", "values", "extras", "prefix"):
            inner = case["case"] if k == "prefix" else case
            via_main = bool(inner.get("via_main"))
            shared = self.fresh_paths()
            self._built = {}
            n = 0
            for plat, v in self.variants(inner):
                n += 1
                self.execute(plat, v, stats, vs, via_main=via_main, shared=shared,
                             origin=(inner, n))
                if k == "prefix" and n >= case["upto"]:
                    break
            self.drop_paths(shared)
            self._built = {}
        elif k == "zones":
            self.run_zones(case["zone"], stats, vs)
        elif k == "pairs":
            plat, dim = case["plat"], case["dim"]
            vals = self.pair_values(plat, dim)
            for a in vals:
                for b in vals:
                    if a != b:
                        self.run_pair(plat, dim, a, b, stats, vs)
        elif k == "pair":
            self.run_pair(case["plat"], case["dim"], case["a"], case["b"], stats, vs)
        elif k == "main":
            for v in self.main_sample(case["plat"]):
                self.execute(case["plat"], v, stats, vs, via_main=True)
        elif k == "docs-sample":
            self.docs_sample(stats, vs)
        return vs

    def run_pair(self, plat, dim, a, b, stats, vs):
        """two calls in one process naming the same paths: variant a, then variant b"""
        shared = self.fresh_paths()
        found = []
        for val in (a, b):
            v = self.base_variant(plat)
            v[dim] = val
            found = self.judge(plat, v, stats, False, shared)
        self.drop_paths(shared)
        # the first call is an ordinary single call (covered by the product); the second one
        # must come out as if it were made alone
        for suffix, observed, expected, clause in found:
            vs.append(Violation("C08", "C08:%s:second-call-on-same-paths:%s:%s" % (plat, dim, suffix),
                                {"kind": "pair", "plat": plat, "dim": dim, "a": a, "b": b}, None,
                                observed, expected, clause))

    def run_zones(self, zone, stats, vs):
        """SGX verification in a process whose time zone is ``zone``, with certificates whose
        validity begins / ends within a few hours of now: the verdict is that of UTC instants,
        whatever the local wall clock reads.  The reference instant is the real present, so
        that real and owned clocks agree to the second."""
        import datetime
        t0 = datetime.datetime.now(datetime.timezone.utc).replace(microsecond=0)
        h = datetime.timedelta(hours=1)
        sg = self.sg
        hp = sg.h
        windows = {  # name: (element, not_before, not_after, valid?)
            "pck-expired-90min-ago": ("pck", t0 - 30 * 24 * h, t0 - 1.5 * h, False),
            "pck-valid-2h-more": ("pck", t0 - 30 * 24 * h, t0 + 2 * h, True),
            "pck-valid-in-1h": ("pck", t0 + h, t0 + 30 * 24 * h, False),
            "pck-valid-since-1h": ("pck", t0 - h, t0 + 30 * 24 * h, True),
            "ca-expired-90min-ago": ("ca", t0 - 30 * 24 * h, t0 - 1.5 * h, False),
            "ca-valid-since-1h": ("ca", t0 - h, t0 + 2 * h, True),
        }
        msg = sg.message(keys_hash=self.lg.keys_hash)
        saved = (S.FixedClock.current, dict(sg.certs))
        try:
            with seams.process_zone(zone):
                S.FixedClock.current = t0
                for name, (el, nb, na, valid) in windows.items():
                    if el == "pck":
                        sg.certs["pck"] = S.make_cert("Verif SGX PCK Certificate", hp.pck_key,
                                                      "Verif SGX PCK Platform CA", hp.ca_key, 3,
                                                      False, nb, na)
                    else:
                        sg.certs["ca"] = S.make_cert("Verif SGX PCK Platform CA", hp.ca_key,
                                                     "Verif SGX Root CA", hp.root_key, 2, True,
                                                     nb, na)
                    cert, _ = sg.certificate("genuine", "quote", msg)
                    sg.certs.update(saved[1])
                    for via_main in (False, True):
                        self.zone_call(zone, name, valid, cert, via_main, stats, vs)
        finally:
            S.FixedClock.current = saved[0]
            sg.certs.clear()
            sg.certs.update(saved[1])

    def zone_call(self, zone, name, valid, cert, via_main, stats, vs):
        stats.evaluations += 1
        paths = self.fresh_paths()
        put(paths["cert"], json.dumps(cert))
        put(paths["pk"], self.pkv("base")["same"][0])
        put(paths["root"], self.sroots["right"][0])
        buf = io.StringIO()
        outcome, text = "ok", ""
        with contextlib.redirect_stdout(buf):
            try:
                if via_main:
                    self.run_main("sgx", paths["cert"], paths["pk"], paths["root"])
                else:
                    self.VS.do_verify_attestation(options_for("sgx", paths["cert"], paths["pk"],
                                                              paths["root"]))
            except SystemExit as e:
                if e.code not in (0, None):
                    outcome = "err"
            except BaseException as e:   # noqa
                outcome, text = "err", "%s: %s" % (type(e).__name__, e)
        self.drop_paths(paths)
        stats.observe(("zone", zone, name, valid, outcome))
        if (outcome == "ok") != valid:
            vs.append(Violation(
                "C08", "C08:sgx:time-zone:%s:%s" % ("refused-valid" if valid else "accepted-invalid",
                                                   name.split("-")[0]),
                {"kind": "zones", "zone": zone}, None,
                {"zone": zone, "certificate": name, "outcome": outcome, "text": text[:300]},
                {"outcome": "ok" if valid else "error"},
                "the certificate chain is valid (at the present instant) for the chosen root"))

    def main_sample(self, plat):
        """genuine + every single departure from it, through adm_*.main()"""
        base = self.base_variant(plat)
        if plat == "ledger":
            alts = {"chain": L_CHAINS[1:], "targets": self.m_lt[1:], "ui": self.m_ui[1:],
                    "pubkeys": self.m_lpk[1:], "root": self.m_lroots[1:]}
            if self.thorough:
                alts = {"chain": L_CHAINS[1:], "targets": L_TARGETS[1:], "ui": list(UI_VARIANTS)[1:],
                        "pubkeys": list(self.pkv("base"))[1:], "root": L_ROOTS[1:]}
        else:
            alts = {"chain": S_CHAINS[1:], "targets": self.m_st[1:], "pubkeys": self.m_spk[1:],
                    "root": self.m_sroots[1:]}
        out = [dict(base)] + [dict(base, values=p) for p in L.VALUE_PROFILES[1:]]
        for dim, names in alts.items():
            for n in names:
                v = dict(base)
                v[dim] = n
                out.append(v)
        svs = self.signer_variants(plat)
        if self.thorough:
            fmts = ["legacy", "current"] if plat == "ledger" else ["current"]
            svs = [(f, h, ln, p) for f in fmts for h in SIGNER_HEADERS[f] for ln in LENGTHS
                   for p in (list(PLATFORMS) if f == "current" else ["-"])]
        for sv in svs:
            v = dict(base)
            v["signer"] = list(sv)
            out.append(v)
        return out

    # -- files ---------------------------------------------------------------------------------
    def fresh_paths(self):
        self._serial += 1
        stem = os.path.join(self.dir, "%d-%d-" % (os.getpid(), self._serial))
        return {"cert": stem + "attestation.json", "pk": stem + "pubkeys.json",
                "root": stem + "root.pem"}

    def drop_paths(self, paths):
        for p in paths.values():
            if os.path.exists(p):
                os.unlink(p)

    # -- building one input ------------------------------------------------------------------
    def timestamp_for(self, base, ts):
        return base if ts is None else (base & ~0xff) | ts

    def build_ledger(self, v):
        lg = self.lgs[v.get("values", "seeded")]
        hdr, key, lenmod, ui_class = UI_VARIANTS[v["ui"]]
        ud = it = None
        if v["ui"].startswith("edge-"):
            b = bytes.fromhex(v["ui"][5:])
            ud = b + lg.ud_ui[len(b):]
            it = int.from_bytes((lg.iteration.to_bytes(2, "big") + b)[-2:], "big")
        ui_msg = lg.ui_msg(hdr, key, lenmod, ud, it)
        fmt, hname, lname, plat = v["signer"]
        shdr, s_class = SIGNER_HEADERS[fmt][hname]
        ks = v.get("keyset", "base")
        lenmod, fill = LENGTHS[lname]
        sg_msg = lg.signer_msg(fmt, shdr, lenmod, PLATFORMS.get(plat, b"led"),
                               self.keysets[ks][2], fill, self.timestamp_for(lg.timestamp, v.get("ts")))
        name = ("L", v["chain"], v["targets"], v["ui"], fmt, hname, lname, plat, ks, v.get("ts"),
                v.get("values"), v.get("extra"))
        if name not in self._built:
            cert = lg.certificate(v["chain"], v["targets"], ui_msg, sg_msg)
            if v.get("extra"):
                # version 1 admits four element names only: an additional element called like
                # the root word (or anything else) is outside the documented format
                dev = [e for e in cert["elements"] if e["name"] == "device"][0]
                cert["elements"].append(dict(dev, name={"v1-root-word": "root",
                                                        "v2-root-word": "sgx_root"}[v["extra"]]))
            self._built[name] = json.dumps(cert, indent=2) + "\n"
        return self._built[name], ui_msg, sg_msg, ui_class, s_class, shdr

    def build_sgx(self, v):
        sg = self.sgs[v.get("values", "seeded")]
        fmt, hname, lname, plat = v["signer"]
        shdr, s_class = SIGNER_HEADERS["current"][hname]
        ks = v.get("keyset", "base")
        lenmod, fill = LENGTHS[lname]
        msg = sg.message(shdr, lenmod, PLATFORMS[plat], self.keysets[ks][2], fill,
                         self.timestamp_for(sg.timestamp, v.get("ts")))
        hier = v.get("hier") or self.sroots[v["root"]][2]
        name = ("S", v["chain"], v["targets"], hname, lname, plat, ks, v.get("ts"), hier,
                v.get("values"), v.get("extra"))
        if name not in self._built:
            gen = sg if hier == "h" else self.other_sgx()
            cert, quote = gen.certificate(v["chain"], v["targets"], msg)
            own, oth = (sg.h, sg.other) if hier == "h" else (sg.other, sg.h)
            cert = add_extra(cert, v.get("extra"), own.root_der, oth.root_der)
            self._built[name] = (json.dumps(cert, indent=2) + "\n", quote)
        text, quote = self._built[name]
        return text, msg, quote, s_class, shdr

    def other_sgx(self):
        """a second complete genuine platform under the other root (same message fields)"""
        if not hasattr(self, "_other_sgx"):
            sg = self.sg
            o = SgxGen(Rng("c08-sgx-other"), hierarchy=sg.other)
            o.ud, o.best_block, o.last_tx, o.timestamp, o.filler = \
                sg.ud, sg.best_block, sg.last_tx, sg.timestamp, sg.filler
            self._other_sgx = o
        return self._other_sgx

    # -- reference predicate ------------------------------------------------------------------
    def oracle_ledger(self, v, ui_msg, sg_msg, ui_class, s_class, shdr):
        """-> (verdict ok|err|open, first failing conjunct, all)"""
        opens = []
        root_hex, root_right = self.lroots[v["root"]]
        keymap, pk_open, file_hash, btc = self.keyinfo(v)
        fails = []
        if root_hex is not None and v["root"].startswith(("malformed", "empty")):
            fails.append("root-malformed")
        if keymap is None or len(keymap) == 0 or file_hash is None:
            fails.append("pubkeys-file-unusable")
        elif L.UI_PATH not in keymap:
            if pk_open:
                opens.append("btc-path-spelling")
            else:
                fails.append("btc-path-missing")
        ch, tg = v["chain"], v["targets"]
        if tg in ("no-ui", "ui-untargeted"):
            fails.append("ui-target-missing")
        elif not root_right or ch in ("device-link", "attestation-link", "ui-link", "ui-untweaked",
                                      "device-high-s", "attestation-high-s", "ui-high-s"):
            fails.append("ui-chain")
        if ui_class == "foreign":
            fails.append("ui-header")
        elif ui_class == "open":
            opens.append("ui-variant")
        if keymap and L.UI_PATH in keymap and ui_class != "foreign":
            a, b = L.offsets(len(L.UI_HEADER), L.UI_FIELDS)["public_key"]
            if ui_msg[a:b] != btc:
                fails.append("ui-key")
        if tg in ("no-signer", "signer-untargeted"):
            fails.append("signer-target-missing")
        elif not root_right or ch in ("device-link", "attestation-link", "signer-link",
                                      "signer-foreign-tweak", "device-high-s",
                                      "attestation-high-s", "signer-high-s"):
            fails.append("signer-chain")
        fmt, hname, lname, plat = v["signer"]
        if s_class == "foreign":
            fails.append("signer-header")
        elif s_class == "open":
            opens.append("signer-version")
        fields = L.LEGACY_FIELDS if fmt == "legacy" else L.POWHSM_FIELDS
        if LENGTHS[lname][0] != 0:
            fails.append("signer-length")
        elif keymap and file_hash is not None:
            if L.field(sg_msg, len(shdr), fields, "public_keys_hash") != file_hash:
                fails.append("keys-hash")
        if fmt == "current" and plat != "led":
            opens.append("platform")
        if v.get("extra"):
            opens.append("undocumented-element-name")
        if fails:
            return "err", fails[0], fails
        if opens:
            return "open", opens[0], opens
        return "ok", None, []

    def oracle_sgx(self, v, msg, s_class, shdr):
        fails, opens = [], []
        _, kind, default_hier, owner = self.sroots[v["root"]]
        if kind in ("malformed", "none", "url"):
            fails.append("root-" + kind)
        elif kind == "open":
            opens.append("root-not-selfsigned")
        elif owner != (v.get("hier") or default_hier):
            # whatever else the file ships (also under the format's own root word): the chain is
            # not signed under the root the operator chose
            fails.append("chain-root")
        keymap, pk_open, file_hash, _ = self.keyinfo(v)
        if keymap is None or len(keymap) == 0 or file_hash is None:
            fails.append("pubkeys-file-unusable")
        if v["targets"] != "quote":
            fails.append("quote-target-missing")
        if v["chain"] != "genuine":
            fails.append("chain:" + v["chain"])
        fmt, hname, lname, plat = v["signer"]
        if s_class == "foreign":
            fails.append("powhsm-header")
        elif s_class == "open":
            opens.append("powhsm-version")
        if LENGTHS[lname][0] != 0:
            fails.append("powhsm-length")
        elif keymap and file_hash is not None:
            if L.field(msg, len(shdr), L.POWHSM_FIELDS, "public_keys_hash") != file_hash:
                fails.append("keys-hash")
        if plat != "sgx":
            opens.append("platform")
        if fails:
            return "err", fails[0], fails
        if opens:
            return "open", opens[0], opens
        return "ok", None, []

    # -- one execution -----------------------------------------------------------------------
    def execute(self, plat, v, stats, vs, via_main=False, shared=None, origin=None):
        found = self.judge(plat, v, stats, via_main, shared)
        if not found:
            return
        case = {"kind": "one", "plat": plat, "v": v, "via_main": via_main}
        alone = set()
        if shared is not None:
            # does it also happen when this call is the only one (fresh paths)?
            alone = {f[0] for f in self.judge(plat, v, Stats(), via_main, None)}
        for suffix, observed, expected, clause in found:
            if shared is None or suffix in alone:
                vs.append(Violation("C08", "C08:%s:%s" % (plat, suffix), case, None, observed,
                                    expected, clause))
            else:
                vs.append(Violation(
                    "C08", "C08:%s:depends-on-earlier-calls:%s" % (plat, suffix),
                    {"kind": "prefix", "case": origin[0], "upto": origin[1], "plat": plat, "v": v},
                    None, dict(observed, note="the same call made alone comes out as expected"),
                    expected, "verdict and printed values are a function of the current triple"))

    def judge(self, plat, v, stats, via_main, shared):
        """run one call; -> list of (key suffix, observed, expected, clause)"""
        stats.evaluations += 1
        paths = shared or self.fresh_paths()
        if plat == "ledger":
            cert_text, ui_msg, sg_msg, ui_class, s_class, shdr = self.build_ledger(v)
            verdict, reason, allr = self.oracle_ledger(v, ui_msg, sg_msg, ui_class, s_class, shdr)
            root = self.lroots[v["root"]][0]
            mod = self.VL
        else:
            cert_text, sg_msg, quote, s_class, shdr = self.build_sgx(v)
            verdict, reason, allr = self.oracle_sgx(v, sg_msg, s_class, shdr)
            content, kind = self.sroots[v["root"]][:2]
            put(paths["root"], content)
            root = paths["root"]
            if kind == "none":
                root = None
            elif kind == "url":
                root = "https://certificates.example.invalid/root.pem"
            mod = self.VS
        put(paths["cert"], cert_text)
        put(paths["pk"], self.pkv(v.get("keyset", "base"))[v["pubkeys"]][0])
        buf = io.StringIO()
        outcome, exc_class, exc_text = "ok", None, ""
        S.FixedClock.current = S.CLOCK
        with contextlib.redirect_stdout(buf):
            try:
                if via_main:
                    self.run_main(plat, paths["cert"], paths["pk"], root)
                else:
                    mod.do_verify_attestation(options_for(plat, paths["cert"], paths["pk"], root))
            except SystemExit as e:
                if e.code not in (0, None):
                    outcome, exc_class, exc_text = "err", "exit-%s" % (e.code,), ""
            except BaseException as e:   # noqa
                outcome, exc_class, exc_text = "err", type(e).__name__, str(e)
        if shared is None:
            self.drop_paths(paths)
        if exc_class is not None and exc_class != "AdminError" and not exc_class.startswith("exit-"):
            stats.bump("non_admin_errors")
        stem = re.sub(r"[0-9a-f]{8,}|/[^ \"]+", "#", exc_text)[:48]
        stats.observe((plat, verdict, reason, outcome, exc_class, stem, via_main))
        stats.sample({"platform": plat, "variant": v, "oracle": [verdict, reason], "outcome": outcome,
                      "error": exc_text[:120]})
        if verdict == "open":
            stats.dont_care += 1
        if verdict == "err" and outcome == "ok":
            return [("accepted-despite:%s" % reason,
                     {"outcome": "finished without error", "stdout": buf.getvalue()[-1500:]},
                     {"outcome": "error", "failing_conjuncts": allr},
                     "finishes without error only when every conjunct holds")]
        if verdict == "ok" and outcome != "ok":
            return [("refused-well-formed:%s:%s" % (exc_class, stem),
                     {"outcome": "error", "exception": exc_class, "text": exc_text[:600]},
                     {"outcome": "finishes without error"}, "all conjuncts hold")]
        if outcome != "ok":
            return []
        # printed values == bytes at the documented offsets of the signed messages
        sections = L.parse_output(buf.getvalue())
        text, keymap, _ = self.pkv(v.get("keyset", "base"))[v["pubkeys"]]
        bad = []
        if plat == "ledger":
            bad += self.printed_ui(sections, v, ui_msg)
            bad += self.printed_signer(sections, "Signer verified", v, sg_msg, shdr, keymap,
                                       {"Installed Signer hash":
                                        self.lgs[v.get("values", "seeded")].signer_hash_installed.hex()},
                                       "Installed Signer version")
        else:
            rb = quote[L.QUOTE_HEADER_LEN:]
            bad += self.printed_signer(
                sections, "powHSM verified", v, sg_msg, shdr, keymap,
                {"Installed powHSM MRENCLAVE": rb[L.RB_MRENCLAVE[0]:L.RB_MRENCLAVE[1]].hex(),
                 "Installed powHSM MRSIGNER": rb[L.RB_MRSIGNER[0]:L.RB_MRSIGNER[1]].hex()},
                "Installed powHSM version")
        return [("printed:%s" % label, {"printed": got, "stdout": buf.getvalue()[-1500:]},
                 {"bytes_at_documented_offset": want},
                 "printed values are those at the documented offsets") for label, got, want in bad]

    def run_main(self, plat, cert_path, pk_path, root):
        import importlib
        m = importlib.import_module("adm_ledger" if plat == "ledger" else "adm_sgx")
        argv = [m.__name__ + ".py", "verify_attestation"]
        if cert_path is not None:
            argv += ["-t", cert_path]
        if pk_path is not None:
            argv += ["-b", pk_path]
        if root is not None:
            argv += ["-r", root]
        with patched((sys, "argv", argv)):
            m.main()

    def printed_ui(self, sections, v, ui_msg):
        s = L.section(sections, "UI verified")
        if s is None:
            return [("ui-section", None, "a 'UI verified with:' section")]
        hl = len(UI_VARIANTS[v["ui"]][0])
        f = lambda n: L.field(ui_msg, hl, L.UI_FIELDS, n)     # noqa: E731
        want = {"UD value": f("ud_value").hex(),
                "Derived public key (%s)" % L.UI_PATH: f("public_key").hex(),
                "Authorized signer hash": f("signer_hash").hex(),
                "Installed UI hash": self.lgs[v.get("values", "seeded")].ui_hash.hex(),
                "Installed UI version": ui_msg[hl - 3:hl].decode("latin-1")}
        if len(f("signer_iteration")) == 2:
            want["Authorized signer iteration"] = str(int.from_bytes(f("signer_iteration"), "big"))
        return [(k, s[1].get(k), w) for k, w in want.items() if s[1].get(k) != [w]]

    def printed_signer(self, sections, title, v, msg, shdr, keymap, fixed, version_label):
        s = L.section(sections, title)
        if s is None:
            return [("signer-section", None, "a '%s' section" % title)]
        fmt = v["signer"][0]
        fields = L.LEGACY_FIELDS if fmt == "legacy" else L.POWHSM_FIELDS
        f = lambda n: L.field(msg, len(shdr), fields, n)       # noqa: E731
        want = dict(fixed)
        want["Hash"] = f("public_keys_hash").hex()
        vpos = shdr.index(b":", 4) + 1 if fmt == "legacy" else len(b"POWHSM:")
        want[version_label] = shdr[vpos:vpos + 3].decode("latin-1")
        for p, raw in keymap.items():
            if raw not in self._compressed:
                self._compressed[raw] = k1.compressed(raw).hex()
            want[p] = self._compressed[raw]
        extra = {"Platform": None, "UD value": None, "Best block": None,
                 "Last transaction signed": None, "Timestamp": None}
        if fmt == "current":
            try:
                extra["Platform"] = f("platform").decode("ascii")
            except UnicodeDecodeError:
                extra["Platform"] = None
            extra["UD value"] = f("ud_value").hex()
            extra["Best block"] = f("best_block").hex()
            extra["Last transaction signed"] = f("last_signed_tx").hex()
            extra["Timestamp"] = str(int.from_bytes(f("timestamp"), "big"))
        bad = [(k, s[1].get(k), w) for k, w in want.items() if s[1].get(k) != [w]]
        for k, w in extra.items():
            got = s[1].get(k)
            if w is None and got is not None and fmt == "legacy":
                bad.append((k, got, "(not printed: the legacy message has no such field)"))
            elif w is not None and got != [w]:
                bad.append((k, got, w))
        return bad

    # -- the document's own version-1 sample under the default root -------------------------------
    def docs_sample(self, stats, vs):
        v1, _, _, _ = L.doc_samples()
        paths = self.fresh_paths()
        put(paths["cert"], json.dumps(v1))
        put(paths["pk"], self.pkv("base")["same"][0])
        stats.evaluations += 1
        buf = io.StringIO()
        outcome = "ok"
        with contextlib.redirect_stdout(buf):
            try:
                self.VL.do_verify_attestation(options_for("ledger", paths["cert"], paths["pk"], None))
            except BaseException as e:   # noqa
                outcome = type(e).__name__
        self.drop_paths(paths)
        stats.observe(("docs-sample", outcome))
        # its signer link does not verify under Ledger's key (reference walk) and the keys
        # are not the operator's: must end in an error
        if outcome == "ok":
            vs.append(Violation("C08", "C08:ledger:accepted-despite:docs-sample-default-root",
                                {"kind": "docs-sample"}, None, {"outcome": "ok"},
                                {"outcome": "error"}, "default root"))


CHECK = C08
