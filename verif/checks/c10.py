"""C10 - the PIN kept on disk always opens the device.

History x fault x crash-point enumeration: chained manager lifetimes (start -> ... ->
stop / crash -> restart) of the real ManagerRunner.run + FileBasedPin + HSM2Dongle(SGX) on
an in-memory file system with failure / crash injection and a device that *has* a PIN;
deviation-bounded over the whole chained history.  Invariants I1..I5 are evaluated on the
durable state after every lifetime.  Separately: every PIN the generator can produce from
all 4^8 choice strings over a 4-character alphabet (rejection loop)."""
import itertools
import types

from ..framework import Check, Violation
from ..xplore import explore, run_once
from .. import env, fakeserver, harness, memfs
from ..simdev.base import World, Device, SW, DropLinkBase, DeviceFault
from .c09 import DetRandom, PIN_FILE, PIN_DIR

FILE_STATES = {
    "absent": None, "valid": b"a1b2a3c1", "digits": b"12345678", "short": b"abc1234",
    "newline": b"a1b2a3c1\n", "empty": b"", "nine": b"abcd12345", "symbol": b"abcd123!",
    # the PIN file is a symbolic link to a regular file holding a valid PIN (a mounted secret)
    "link": b"a1b2a3c1",
    # a valid PIN made of the characters people take for one another (a generator may avoid them;
    # a PIN that has them stays valid)
    "lookalike": b"0lI1O0lI",
}
DEFAULT_PIN = b"12d4a2cd"
NOMINAL = None


def policy_ok(pin):
    return (len(pin) == 8 and all(chr(c).isascii() and chr(c).isalnum() for c in pin)
            and any(chr(c).isalpha() for c in pin))


def file_pin(content):
    """the PIN a manager recovers from the file: stripped content if it satisfies the policy"""
    if content is None:
        return None
    p = content.strip()
    return p if policy_ok(p) else None


class GeneratorLivelock(Exception):
    pass


class Drop(DropLinkBase):
    pass


class TimeoutF(DeviceFault):
    kind = "timeout"


class PinDevice(Device):
    """onboarded Ledger UI / SGX device with a real PIN, retries counter, and choice points
    (reaction to the new PIN, faults at each APDU of its transmission, process crash at the
    step boundaries of the change)."""

    def __init__(self, platform, true_pin):
        self.platform = platform
        self.true_pin = true_pin
        self.retries = 3
        self.wiped = False
        self.ctx = None
        self.crash = None            # callable: freeze the world and raise memfs.Crash
        self.power_cycle()
        self.acked = []              # new PINs acknowledged, over all lifetimes
        self.new_pins_seen = []
        self.pin_trace = [true_pin]

    def power_cycle(self):
        self.mode = 2
        self.unlocked = False
        self.buf = bytearray(12)
        self.in_new_pin = False
        self.unlock_attempts = 0

    def choose(self, opts, label):
        if self.ctx is None:
            return opts[0]
        return opts[self.ctx.choose(len(opts), label)]

    def crash_point(self, label):
        c = self.choose(["ok", "crash"], "crash:%s" % label)
        if c == "crash":
            self.crash()

    def handle(self, apdu):
        cmd = apdu[1]
        sgx = self.platform == "sgx"
        if cmd == 0x06:
            return bytes([0x80, 0 if self.wiped else 1, 5, 4, 1])
        if cmd == 0x43:
            return bytes([0x80, self.mode])
        if self.mode == 3:
            if cmd == 0x11:
                return bytes([0x80, 0x11, 0]) + bytes(32) + (7).to_bytes(36, "big") + bytes([2])
            if cmd == 0x04:
                return b"\x04" + b"\x11" * 64
            raise SW(0x6D00)
        if cmd == (0xA4 if sgx else 0x02):
            return bytes(apdu)
        if cmd == (0xA2 if sgx else 0x45):
            return bytes([0x80, cmd, self.retries])
        if not sgx and cmd == 0x41:
            if self.unlocked:
                # transmission of the new PIN (length prefix + chars)
                self.crash_point("before-pin-apdu")
                r = self.choose(["ok", "sw", "timeout", "link"], "newpin-char")
                if r == "sw":
                    raise SW(0x6A01)
                if r == "timeout":
                    raise TimeoutF()
                if r == "link":
                    raise Drop()
            idx = apdu[2]
            if idx <= 9:
                self.buf[idx] = apdu[3]
                self.buf[idx + 1] = 0
            if self.unlocked:
                self.crash_point("after-pin-apdu")
            return bytes([0x80, 0x41, idx])
        if (not sgx and cmd == 0xFE) or (sgx and cmd == 0xA3):
            pin = bytes(self.buf).split(b"\x00")[0] if not sgx else bytes(apdu[3:])
            self.buf = bytearray(12)
            self.unlock_attempts += 1
            if self.retries == 0 or self.wiped:
                return bytes([0x80, cmd, 0])
            if pin == self.true_pin:
                self.unlocked = True
                self.retries = 3
                self.crash_point("after-unlock")
                return bytes([0x80, cmd, 1])
            self.retries -= 1
            if self.retries == 0:
                self.wiped = True
            return bytes([0x80, cmd, 0])
        if (not sgx and cmd == 0x08) or (sgx and cmd == 0xA5):
            if sgx:
                pin = bytes(apdu[3:])
            else:
                b = bytes(self.buf)
                pin = b[1:].split(b"\x00")[0]
            self.buf = bytearray(12)
            self.new_pins_seen.append(pin)
            self.crash_point("before-change-cmd")
            r = self.choose(["accept", "refuse", "sw-in", "sw-out", "timeout", "link"]
                            + (["refuse-02", "refuse-55", "refuse-ff"] if sgx else []), "newpin")
            if not self.unlocked:
                r = "refuse"
            if r == "accept":
                if not policy_ok(pin):
                    r = "refuse"       # the device enforces its policy
                else:
                    self.true_pin = pin
                    self.pin_trace.append(pin)
                    self.acked.append(pin)
                    self.crash_point("after-ack")
                    return bytes([0x80, cmd, 1]) if sgx else bytes([0x80, 0x02, 0x01])
            if r == "refuse":
                if sgx:
                    return bytes([0x80, cmd, 0])
                raise SW(0x69A0)
            if r.startswith("refuse-"):
                # SGX: any answer other than 1 means the password was not changed
                return bytes([0x80, cmd, int(r[7:], 16)])
            if r == "sw-in":
                raise SW(0x6A99)
            if r == "sw-out":
                raise SW(0x6F02)
            if r == "timeout":
                raise TimeoutF()
            raise Drop()
        if cmd in (0xFF, 0xFA):
            if self.unlocked:
                self.mode = 3
            raise Drop()
        raise SW(0x6D00)


class C10(Check):
    id = "C10"
    level = "fault_enumeration"
    rule = ("initial configuration (platform x PIN file {absent, valid, 8 digits, 7 chars, trailing "
            "newline, empty, 9 chars, symbol} x default PIN set/unset x forced change x device PIN "
            "equal to / different from the one the manager will send) x chained lifetimes (<= 3) x "
            "every fault sequence with <= B deviations over the whole history: device reaction to "
            "the new PIN {accept, refuse, status in/out of range, timeout, link error}, a fault at "
            "each APDU of its transmission, file-operation failure at isfile/open/read/write/"
            "close, process crash before/after each file operation and at each step boundary of "
            "the change. Plus all 4^8 random-choice strings of the PIN generator. Classes = "
            "(configuration class, faults taken, final durable state class).")
    assumptions = [
        "process-crash semantics: truncation immediate, written bytes durable at close, closed file "
        "durable; power loss (unsynced closed data lost) is not modelled",
        "'ack lost after the device applied the PIN' is outside the statement's fault list and not "
        "injected; timeout / link error on the change command mean the device did not apply it",
        "the device enforces the PIN policy itself (refuses a non-compliant new PIN)",
    ]
    trusted_base = ["verif/memfs.py", "PinDevice in this module"]

    def prepare(self):
        self.bound = 3 if self.thorough else 2
        self.lifetimes = 3

    def bounds(self):
        return {"deviation_bound": self.bound, "lifetimes": self.lifetimes,
                "generator": "all 4^8 choice strings"}

    def cases(self):
        cs = []
        for platform in ("ledger", "sgx"):
            for fstate in FILE_STATES:
                for default in (True, False):
                    for force in (False, True):
                        for devpin in ("match", "other"):
                            cs.append({"kind": "history", "platform": platform, "file": fstate,
                                       "default": default, "force": force, "devpin": devpin})
        # a change forced at EVERY start (two and three changes on the same file)
        for platform in ("ledger", "sgx"):
            for fstate in ("absent", "valid", "newline"):
                cs.append({"kind": "history", "platform": platform, "file": fstate, "default": fstate == "absent",
                           "force": True, "devpin": "match", "force_all": True})
        # the same under `python -O` (assert statements compiled away): a verdict must not be checked by assert
        for sub in [{"kind": "history", "platform": pf, "file": fst, "default": fst == "absent", "force": fst != "absent",
                  "devpin": "match"} for pf in ("ledger", "sgx") for fst in ("absent", "valid")]:
            cs.append({"kind": "optimized", "sub": sub})
        for a in range(4):
            for b in range(4):
                cs.append({"kind": "generator", "first": [a, b]})
        for platform in ("ledger", "sgx"):
            for fstate in ("absent", "valid"):
                for force in (False, True):
                    for v1 in (False, True):
                        # the request that meets the pending reconnection (and with it the PIN change):
                        # every command has its own handler around ensure_connection
                        cmds = (("v1-getPubKey", "v1-sign") if v1 else
                                ("getPubKey", "sign-hash", "sign-legacy", "advance-nobrothers", "updateAncestor",
                                 "reset", "state", "params", "signerHeartbeat", "uiHeartbeat"))
                        for cmd in cmds:
                            cs.append({"kind": "reconnect", "platform": platform, "file": fstate,
                                       "force": force, "v1": v1, "cmd": cmd})
                        # the client of that request is gone by the time the reply is written
                        for client in ("reset", "closed"):
                            cs.append({"kind": "reconnect", "platform": platform, "file": fstate,
                                       "force": force, "v1": v1, "cmd": cmds[0], "client": client})
        return cs

    # ------------------------------------------------------------------
    def run_case(self, case, stats):
        if case["kind"] == "optimized":
            from ..framework import optimized
            return optimized(self, case, stats)
        if case["kind"] == "generator":
            return self.generator(case, stats)
        vs = []
        if case["kind"] == "reconnect":
            run = self.reconnect_driver(case)

            def check_r(ctx, obs):
                c = dict(case, choices=list(ctx.choices))
                self.judge_reconnect(case, c, ctx, obs, stats, vs)
            if "choices" in case:
                ctx, obs = run_once(run, case["choices"])
                check_r(ctx, obs)
                return vs
            explore(run, check_r, stats, bound=self.bound)
            return vs
        run = self.driver(case)

        def check(ctx, obs):
            c = dict(case, choices=list(ctx.choices))
            self.judge(case, c, ctx, obs, stats, vs)
        if "choices" in case:
            ctx, obs = run_once(run, case["choices"])
            check(ctx, obs)
            return vs
        explore(run, check, stats, bound=(self.bound - 1) if case.get("force_all") else self.bound)
        return vs

    def replay(self, case, choices):
        from ..xplore import Stats
        c = dict(case)
        if choices or case.get("choices"):
            c["choices"] = list(choices or case.get("choices"))
        return self.run_case(c, Stats())

    def generator(self, case, stats):
        import ledger.pin as LPIN
        vs = []
        alphabet = "07aZ"

        class Seq:
            def __init__(self, seq):
                self.seq = seq
                self.i = 0

            def seed(self, *a):
                pass

            def choice(self, pool):
                # map the i-th choice onto the 4-character alphabet, afterwards cycle
                if self.i > 4000:
                    raise GeneratorLivelock()
                ch = alphabet[self.seq[self.i % len(self.seq)]]
                self.i += 1
                return ch if ch in pool else pool[0]

            def index(self, n):
                # an integer below n: the position of the drawn character in the generator's pool
                chars = LPIN.BasePin.POSSIBLE_CHARS
                ch = self.choice(chars)
                k = alphabet.index(ch)
                return chars.index(ch) if n == len(chars) else k % n
        unbind = lambda: None    # noqa: E731
        try:
            seqs = []
            for rest in itertools.product(range(4), repeat=6):
                first8 = list(case["first"]) + list(rest)
                if all(c in (0, 1) for c in first8):
                    # digits only: whatever the generator does next (draw again, patch a position) is
                    # given every continuation of two more draws
                    for t in itertools.product(range(4), repeat=2):
                        seqs.append(first8 + list(t) + [2])
                else:
                    seqs.append(first8 + [2])       # 9th choice 'a' ends a rejection loop
            for seq in seqs:
                unbind()
                src = Seq(seq)
                unbind = env.bind_random(LPIN, src)
                stats.evaluations += 1
                try:
                    pin = LPIN.BasePin.generate_pin()
                except GeneratorLivelock:
                    vs.append(Violation("C10", "C10:I3-generator-does-not-terminate", dict(case, seq=seq),
                                        None, {"choices_consumed": src.i},
                                        "a PIN after finitely many draws (the stream contains letters)", "I3"))
                    break
                ok = isinstance(pin, bytes) and policy_ok(pin)
                stats.observe(("gen", any(c == 2 or c == 3 for c in seq[:8]), ok, src.i > 8))
                if not ok:
                    vs.append(Violation("C10", "C10:I3-generated-pin-violates-policy", dict(case, seq=seq),
                                        None, {"pin": pin}, "8 alphanumerics with a letter", "I3"))
                if LPIN.BasePin.is_valid(pin) is not True:
                    vs.append(Violation("C10", "C10:I3-generated-pin-not-valid-for-loader", dict(case, seq=seq),
                                        None, {"pin": pin}, "is_valid", "I3"))
        finally:
            unbind()
        return vs

    def driver(self, case):
        import ledger.pin as LPIN
        import mgr.runner as RUN
        import comm.server as SRV
        import manager_ledger
        import manager_sgx
        from sgx.hsm2dongle import HSM2DongleSGX
        from ledger.hsm2dongle import HSM2Dongle
        from comm.platform import Platform
        platform = case["platform"]
        content = FILE_STATES[case["file"]]

        def run(ctx):
            fs = memfs.MemFS(ctx, fault_ops=memfs.MemFS.OPS)
            if content is not None:
                fs.files[PIN_FILE] = content
            if case["file"] == "link":
                fs.links[PIN_FILE] = PIN_DIR + "secrets/pin"
            # the PIN the first manager will send
            will_send = file_pin(content) if content is not None else (DEFAULT_PIN if case["default"] else None)
            if case["devpin"] == "match" and will_send is not None:
                true_pin = will_send
            else:
                true_pin = b"zzzz9999"
            dev = PinDevice(platform, true_pin)
            dev.ctx = ctx
            w = World(dev)

            def crash():
                w.dead = True
                fs.dead = True
                raise memfs.Crash()
            dev.crash = crash
            fs.on_crash = lambda: setattr(w, "dead", True)
            environ = {"PIN": DEFAULT_PIN.decode()} if case["default"] else {}
            lifetimes = []
            seams = None
            try:
                for life in range(self.lifetimes):
                    harness.bind_world(w)
                    record = []
                    rnd = DetRandom()
                    rnd.n = life * 5
                    if seams is not None:
                        seams.restore()
                    seams = fakeserver.ManagerSeams(fs, record, rnd, environ, PIN_DIR)
                    seams.install()
                    options = types.SimpleNamespace(
                        pin_file=PIN_FILE, force_pin_change=case["force"] and (life == 0 or bool(case.get("force_all"))),
                        logconfigfilepath="x", version_one=False, host="h", port=1,
                        io_debug=False, tcpconn_host="h", tcpconn_port=1)
                    before = {"file": fs.files.get(PIN_FILE), "dev": dev.true_pin,
                              "acked": len(dev.acked), "seen": len(dev.new_pins_seen),
                              "hist": len(fs.history), "fslog": len(fs.log)}
                    crashed = None
                    try:
                        if platform == "ledger":
                            Platform.set(Platform.LEDGER)
                            runner = RUN.ManagerRunner("m", lambda o: HSM2Dongle(False),
                                                       manager_ledger.load_pin)
                        else:
                            Platform.set(Platform.SGX)
                            runner = RUN.ManagerRunner("m", lambda o: HSM2DongleSGX("h", 1, False),
                                                       manager_sgx.load_pin)
                        runner.run(options)
                    except memfs.Crash:
                        crashed = "CRASH"
                    except BaseException as e:   # noqa
                        crashed = type(e).__name__
                    if fs.dead and crashed is None:
                        crashed = "CRASH-swallowed"
                    lifetimes.append({
                        "before": before, "crashed": crashed,
                        "served": ("serve_forever",) in record,
                        "file": fs.files.get(PIN_FILE), "dev": dev.true_pin,
                        "acked": list(dev.acked[before["acked"]:]),
                        "seen": list(dev.new_pins_seen[before["seen"]:]),
                        "hist": list(fs.history[before["hist"]:]),
                        "fslog": [e for e in fs.log[before["fslog"]:] if len(e) == 3 and e[2] != "ok"],
                        "wiped": dev.wiped, "retries": dev.retries,
                        "unlock_attempts": dev.unlock_attempts,
                        "unlocked": dev.unlocked,
                    })
                    # restart on the frozen durable state
                    fs.dead = False
                    w.dead = False
                    dev.power_cycle()
                    if ctx is not None:
                        ctx.state((life, fs.files.get(PIN_FILE), dev.true_pin, dev.retries, crashed))
                    if dev.wiped:
                        break
            finally:
                if seams is not None:
                    seams.restore()
            return dev, fs, lifetimes
        return run

    # -- PIN change attempted during a reconnection (manager already serving) -------------
    def reconnect_driver(self, case):
        global NOMINAL
        if NOMINAL is None:
            from .. import dialogues
            NOMINAL = dialogues.nominal_requests()
        import json
        import ledger.pin as LPIN
        import mgr.runner as RUN
        import comm.server as SRV
        import manager_ledger
        import manager_sgx
        from sgx.hsm2dongle import HSM2DongleSGX
        from ledger.hsm2dongle import HSM2Dongle
        from comm.platform import Platform
        platform = case["platform"]
        content = FILE_STATES[case["file"]]

        class Rec(list):
            pass

        def run(ctx):
            fs = memfs.MemFS(ctx, fault_ops=("open-w", "write", "close-w"), crash=False)
            if content is not None:
                fs.files[PIN_FILE] = content
            if case["file"] == "link":
                fs.links[PIN_FILE] = PIN_DIR + "secrets/pin"
            true_pin = file_pin(content) or DEFAULT_PIN
            dev = PinDevice(platform, true_pin)
            dev.ctx = ctx
            dev.crash_point = lambda label: None
            dev.mode = 3                      # already in the signer: no unlock at start-up
            dev.unlocked = False
            w = World(dev)
            out = {"replies": [], "stopped": None, "served": False}
            record = Rec()

            def on_serve(server):
                out["served"] = True
                first = {"command": "getPubKey", "version": 1 if case["v1"] else 5,
                         "keyId": "m/44'/137'/0'/0/0"}
                follow = NOMINAL[case.get("cmd") or ("v1-getPubKey" if case["v1"] else "getPubKey")]
                for step in range(4):
                    if step == 0:
                        # the link fails on this request and the device comes back locked
                        base = w.seq
                        w.inject = lambda world, i, apdu: ("read",) if i == base else None
                    else:
                        w.inject = None
                    o = fakeserver.serve_line(server, json.dumps(first if step == 0 else follow).encode(),
                                              client="present" if step == 0 else case.get("client", "present"))
                    if step == 0:
                        dev.power_cycle()          # the device comes back locked, in the bootloader
                    out["replies"].append((o.reply, o.exc))
                    if o.exc is not None:
                        out["stopped"] = step
                        break
            record.on_serve = on_serve
            seams = fakeserver.ManagerSeams(fs, record, DetRandom(), {"PIN": DEFAULT_PIN.decode()}, PIN_DIR)
            crashed = None
            try:
                harness.bind_world(w)
                seams.install()
                options = types.SimpleNamespace(
                    pin_file=PIN_FILE, force_pin_change=case["force"], logconfigfilepath="x",
                    version_one=case["v1"], host="h", port=1, io_debug=False, tcpconn_host="h",
                    tcpconn_port=1)
                try:
                    if platform == "ledger":
                        Platform.set(Platform.LEDGER)
                        runner = RUN.ManagerRunner("m", lambda o: HSM2Dongle(False), manager_ledger.load_pin)
                    else:
                        Platform.set(Platform.SGX)
                        runner = RUN.ManagerRunner("m", lambda o: HSM2DongleSGX("h", 1, False),
                                                   manager_sgx.load_pin)
                    runner.run(options)
                except BaseException as e:   # noqa
                    crashed = type(e).__name__
            finally:
                seams.restore()
            return dev, fs, out, crashed
        return run

    def judge_reconnect(self, case, c, ctx, obs, stats, vs):
        dev, fs, out, crashed = obs
        taken = tuple("%s=%d" % (p[1], ch) for ch, p in zip(ctx.choices, ctx.points) if ch)
        stats.observe(("reconnect", case["platform"], case["file"], case["force"], case["v1"], taken,
                       out["stopped"], len(dev.new_pins_seen), len(dev.acked)), nontrivial=True)

        def viol(clause, detail, observed, expected):
            vs.append(Violation("C10", "C10:%s:%s" % (clause, detail), c, list(ctx.choices),
                                observed, expected, clause))
        if not out["served"]:
            viol("reconnect-scenario-not-served", case["platform"], {"crashed": crashed}, "served")
            return
        for p in dev.new_pins_seen:
            if not policy_ok(p):
                viol("I3-new-pin-violates-policy", case["platform"], {"pin": p}, "policy")
        if len(dev.new_pins_seen) > 1:
            viol("I4-carries-on-after-change-attempt", "second-change-attempt:" + case["platform"],
                 {"new_pins_sent": len(dev.new_pins_seen), "replies": out["replies"]},
                 "the manager stops after the first change attempt")
        if dev.new_pins_seen:
            # a change was attempted while reconnecting: the manager must stop, not go on serving
            idx = out["stopped"]
            if idx is None:
                viol("I4-carries-on-after-change-attempt", "keeps-serving:" + case["platform"],
                     {"replies": out["replies"], "acked": len(dev.acked)}, "manager stops")
        # the statement is about the PIN file: scratch / staging files next to it are not it
        pin_hist = [h for h in fs.history if h[0] == PIN_FILE]
        if not dev.acked and pin_hist:
            viol("I1-file-changed-without-ack", case["platform"], {"writes": pin_hist}, "untouched")
        if dev.acked:
            complete = [h for h in pin_hist if h[1] != b""]
            if complete and complete[-1][1] != dev.acked[-1]:
                viol("I1-file-holds-other-pin", case["platform"], {"written": complete[-1][1]}, "acked PIN")

    def judge(self, case, c, ctx, obs, stats, vs):
        dev, fs, lifetimes = obs
        platform = case["platform"]
        labels = [p[1] for ch, p in zip(ctx.choices, ctx.points) if ch]
        taken = tuple("%s=%d" % (p[1], ch) for ch, p in zip(ctx.choices, ctx.points) if ch)
        stats.observe((platform, case["file"], case["default"], case["force"], case["devpin"],
                       tuple(sorted(set(labels))),
                       tuple((lt["crashed"], lt["served"], bool(lt["acked"])) for lt in lifetimes)),
                      nontrivial=True)
        if any(ctx.choices):
            stats.sample({"config": {k: case[k] for k in ("platform", "file", "default", "force", "devpin")},
                          "faults": list(taken),
                          "lifetimes": [(lt["crashed"], lt["served"], len(lt["acked"])) for lt in lifetimes]},
                         cap=4)

        def viol(clause, detail, observed, expected):
            vs.append(Violation("C10", "C10:%s:%s" % (clause, detail), c, list(ctx.choices),
                                observed, expected, clause))
        default = DEFAULT_PIN if case["default"] else None
        for i, lt in enumerate(lifetimes):
            b = lt["before"]
            # I3: every PIN sent as new satisfies the policy
            for p in lt["seen"]:
                if not policy_ok(p):
                    viol("I3-new-pin-violates-policy", platform, {"pin": p}, "8 alphanumerics with a letter")
            if len(lt["seen"]) > 1:
                viol("I3-more-than-one-new-pin-per-lifetime", platform, {"pins": lt["seen"]}, "<= 1")
            # I1: the file changes only after the device acknowledged a new PIN, and then holds it
            pin_hist = [h for h in lt["hist"] if h[0] == PIN_FILE]     # the PIN file itself, not its neighbours
            if pin_hist:
                if not lt["acked"]:
                    viol("I1-file-changed-without-ack", platform,
                         {"file_before": b["file"], "writes": pin_hist, "faults": list(taken)},
                         "file untouched")
                else:
                    final = lt["file"]
                    complete = [h for h in pin_hist if h[1] != b""]
                    if complete and complete[-1][1] != lt["acked"][-1]:
                        viol("I1-file-holds-other-pin", platform,
                             {"written": complete[-1][1], "acked": lt["acked"][-1]}, "the acknowledged PIN")
            # I2: refused / failed / aborted change leaves file and PIN in use untouched
            if not lt["acked"]:
                if lt["file"] != b["file"]:
                    viol("I2-file-touched-by-failed-change", platform,
                         {"before": b["file"], "after": lt["file"]}, "unchanged")
                if lt["dev"] != b["dev"]:
                    viol("I2-device-pin-changed-without-ack", platform, {}, "unchanged")
            # I4: after any change attempt the manager stops instead of carrying on
            if lt["seen"] and lt["served"]:
                viol("I4-serves-after-change-attempt", platform,
                     {"acked": bool(lt["acked"])}, "manager stops")
            # I5: at the end of the lifetime a PIN that unlocks the device is recoverable
            if not dev.wiped or i < len(lifetimes) - 1:
                rec = {file_pin(lt["file"]), default}
                if lt["dev"] not in rec and b["dev"] in {file_pin(b["file"]), default}:
                    # which step lost it: the fault between the device's acknowledgement and
                    # the completed file write, in this lifetime
                    commit = [e for e in lt["fslog"] if e[0] in ("open-w", "write", "close-w")]
                    if commit:
                        step = "fs:%s:%s" % (commit[0][0], commit[0][2])
                    elif lt["crashed"] in ("CRASH", "CRASH-swallowed") and lt["acked"]:
                        step = "crash-between-ack-and-commit"
                    else:
                        step = "no-fault-after-ack"
                    viol("I5-pin-lost", step,
                         {"device_pin_recoverable": False, "file": lt["file"], "lifetime": i,
                          "faults": list(taken)},
                         "device PIN equals the PIN in the file or the default")
            # wiping: the manager must never burn the last retries
            if lt["wiped"] and not b.get("wiped"):
                viol("device-wiped", platform, {"lifetime": i, "faults": list(taken)}, "never")
        # the PIN on disk opens the device: without any fault, a manager started on a file whose
        # PIN is the device's unlocks the device
        if not any(ctx.choices) and lifetimes:
            lt = lifetimes[0]
            b = lt["before"]
            fp = file_pin(b["file"])
            if fp is not None and fp == b["dev"] and not lt["unlocked"]:
                viol("file-pin-does-not-open-device", case["file"],
                     {"file": b["file"], "crashed": lt["crashed"], "unlock_attempts": lt["unlock_attempts"]},
                     "device unlocked with the PIN of the file")
        # the PIN on disk opens the device: in a lifetime that starts with a recoverable PIN, no
        # retry may be burnt by sending another one
        for i, lt in enumerate(lifetimes):
            b = lt["before"]
            fp = file_pin(b["file"])
            if fp is not None and fp == b["dev"] and lt["retries"] < 3 and not lt["wiped"]:
                viol("valid-file-pin-not-used", platform, {"lifetime": i, "retries": lt["retries"]},
                     "unlock with the PIN of the file")


CHECK = C10
