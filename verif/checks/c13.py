"""C13 - query replies report the device's data verbatim.

(a) bounded exhaustive enumeration of device states (hash assignment rotations, difficulty
and minimum-difficulty boundary values, all 8 flag combinations, networks, key paths, DER
shapes of the heartbeat signature) for getPubKey / blockchainState / blockchainParameters /
signerHeartbeat in both protocol modes;  (b) full exploration of the device's mode
transitions during uiHeartbeat (mode after each exit, link drop or not, reconnect ok or
failing, heartbeat failing at each exchange)."""
import re
import os

from ..framework import Check, Violation
from ..xplore import explore, run_once
from ..env import Rng
from .. import harness, fwtables, reqs, env
from ..simdev.base import World, SW
from ..simdev.powhsm import PowHsm, DropLink, MODE_SIGNER, MODE_UI_HEARTBEAT, MODE_BOOTLOADER
from ..simdev.policy import der_menu
from .c01 import ref_der

DOC_HASH_NAMES = {        # docs/protocol.md field -> bc_state.h selector macro
    "best_block": "BEST_BLOCK", "newest_valid_block": "NEWEST_VALID_BLOCK",
    "ancestor_block": "ANCESTOR_BLOCK", "ancestor_receipts_root": "ANCESTOR_RECEIPT_ROOT",
    "updating.best_block": "U_BEST_BLOCK", "updating.newest_valid_block": "U_NEWEST_VALID_BLOCK",
    "updating.next_expected_block": "U_NEXT_EXPECTED_BLOCK",
}
NETWORK_NAMES = {1: "mainnet", 2: "testnet", 3: "regtest"}
BIG = [0, 1, 0xFF, 2 ** 255, 2 ** 288 - 1]


def firmware_flag_order():
    with open(os.path.join(env.REPO, "firmware/src/powhsm/src/bc_state.c")) as f:
        text = f.read()
    m = re.search(r"uint8_t dump_flags\(\)\s*\{(.*?)\}", text, flags=re.S)
    order = re.findall(r"APDU_DATA_PTR\[(\d)\]\s*=\s*bc_st_updating\.(\w+)", m.group(1))
    return [name for _, name in sorted(order)]


class HbDevice(PowHsm):
    """PowHsm whose mode transitions / heartbeat failures are environment choices."""

    def __init__(self, ctx, **kw):
        super().__init__(**kw)
        self.ctx = ctx
        self.exits = 0

    def do_exit(self):
        ctx = self.ctx
        nominal = self.next_mode.get(self.mode, self.mode)
        modes = [nominal] + [m for m in (MODE_UI_HEARTBEAT, MODE_SIGNER, MODE_BOOTLOADER, 0xFF)
                             if m != nominal]
        self.mode = modes[ctx.choose(len(modes), "mode-after-exit-%d" % self.exits)]
        drop = ctx.choose(2, "exit-%d-link" % self.exits) == 0
        self.exits += 1
        self.reset_session()
        ctx.state(("exit", self.exits, self.mode, drop))
        if drop:
            raise DropLink()
        return bytes([0x80, 0xFF])

    def ui(self, apdu):
        if self.mode == 0xFF and apdu[1] == 0x43:
            return bytes([0x80, 0xFF])
        if self.mode == MODE_UI_HEARTBEAT and apdu[1] == 0x60:
            op = apdu[2] if len(apdu) > 2 else 0
            if self.ctx.choose(2, "hb-op-%d" % op) == 1:
                self.fail(0x6B10)
        return super().ui(apdu)


# byte patterns that coincide with constants of the protocol stack: status words, the class byte,
# public-key prefixes, DER tags, ASCII of the textual headers, JSON-significant bytes
PATTERNS = [b"\x90\x00", b"\x6a\x8f", b"\x69\x82", b"\x04", b"\x04\x04", b"\x03\x03", b"\x02\x02", b"\x80",
            b"\x00", b"\x00\x00", b"\xff", b"\x30", b"\x20", b"\x0a", b"\x0d\x0a", b"\x22", b"\x5c", b"\x3a", b"\x2e\x35"]


def shaped(rng, n, pat):
    """n bytes that begin and end with the pattern"""
    mid = rng.bytes(max(0, n - 2 * len(pat)))
    return (pat + mid + pat)[:n] if n >= 2 * len(pat) else (pat * n)[:n]


def der_of(r, s):
    def enc(b):
        b = b.lstrip(b"\x00") or b"\x00"
        if b[0] & 0x80:
            b = b"\x00" + b
        return b"\x02" + bytes([len(b)]) + b
    body = enc(r) + enc(s)
    return b"\x30" + bytes([len(body)]) + body


class C13(Check):
    id = "C13"
    level = "exploration"
    rule = ("(a) device states: 7 rotations of 7 pairwise distinct hashes x difficulty in {0,1,0xFF,"
            "2^255,2^288-1} x 8 flag combinations; minimum difficulty (same set) x network ids "
            "{1,2,3, invalid 0,4,255} x checkpoint; 6 listed key paths + unlisted, v5 and v1; "
            "heartbeat with every well-formed DER shape; (b) uiHeartbeat: full choice tree of "
            "mode after 1st/2nd exit x link drop/return x reconnect ok/fail x heartbeat failure "
            "at each of 5 exchanges. Classes = (command, state class, reply code).")
    assumptions = [
        "hash / key / message byte values are seeded; the seven hashes are pairwise distinct",
        "malformed DER in a device answer is a device protocol departure and not injected here",
        "uiHeartbeat started while the device is already in ui-heartbeat mode is dont_care",
        "doc field name -> firmware selector macro table is transcribed in the check; selector "
        "ids and flag order are parsed from bc_state.h / bc_state.c",
    ]
    trusted_base = ["verif/simdev/powhsm.py", "verif/fwtables.py"]

    def prepare(self):
        self.sel = fwtables.tables()["selectors"]
        self.flag_order = firmware_flag_order()
        assert len(self.flag_order) == 3, self.flag_order
        self.ders = der_menu(Rng("c13-der"))[0]

    def bounds(self):
        return {"ui_heartbeat_tree": "full", "big_numbers": [hex(b) for b in BIG]}

    def cases(self):
        cs = []
        for rot in range(7):
            for d in range(len(BIG)):
                cs.append({"kind": "state", "rot": rot, "diff": d})
        if self.thorough:
            import itertools
            perms = list(itertools.permutations(range(7)))
            for i in range(0, len(perms), 60):
                cs.append({"kind": "perms", "lo": i, "hi": min(i + 60, len(perms))})
        for m in range(len(BIG)):
            cs.append({"kind": "params", "mind": m})
        cs.append({"kind": "pubkey"})
        for i in range(len(self.ders)):
            cs.append({"kind": "signer-hb", "der": i})
        cs.append({"kind": "ui-hb"})
        for how in ("plain", "bringup", "relink"):
            for order in (0, 1):
                cs.append({"kind": "history", "how": how, "order": order})
        for i in range(len(PATTERNS)):
            cs.append({"kind": "pattern", "pat": i})
        # the same signer behind the other dongle classes (manager_tcp: Platform.X86 + HSM2DongleTCP;
        # the TCPSigner runs the same hsm.c / heartbeat.c)
        # numbers of every byte length the firmware can send (leading zeros are stripped on the wire)
        cs.append({"kind": "lengths"})
        cs.append({"kind": "state", "rot": 3, "diff": 3, "platform": "tcp"})
        cs.append({"kind": "params", "mind": 2, "platform": "tcp"})
        cs.append({"kind": "signer-hb", "der": 0, "platform": "tcp"})
        cs.append({"kind": "signer-hb", "der": 1, "platform": "tcp"})
        cs.append({"kind": "pubkey", "platform": "tcp"})
        return cs

    def viol(self, vs, clause, detail, case, choices, observed, expected):
        vs.append(Violation("C13", "C13:%s:%s" % (clause, detail), case, choices, observed,
                            expected, clause))

    def mkdev(self, rot=0, cls=PowHsm, **kw):
        dev = cls(seed=b"c13", **kw)
        rng = Rng("c13-hashes")
        vals = [rng.bytes(32) for _ in range(7)]
        names = list(DOC_HASH_NAMES)
        if isinstance(rot, (list, tuple)):
            perm = list(rot)
        else:
            perm = [(i + rot) % 7 for i in range(7)]
        dev.hashes = {self.sel[DOC_HASH_NAMES[n]]: vals[perm[i]] for i, n in enumerate(names)}
        return dev

    def run_case(self, case, stats):
        vs = []
        k = case["kind"]
        if k == "state":
            for flags in range(8):
                self.one_state(case, flags, stats, vs)
        elif k == "one-state":
            self.one_state(case, case["flags"], stats, vs)
        elif k == "perms":
            import itertools
            perms = list(itertools.permutations(range(7)))
            for j, perm in enumerate(perms[case["lo"]:case["hi"]]):
                for d in range(len(BIG)):
                    self.one_state({"kind": "state", "rot": list(perm), "diff": d},
                                   (case["lo"] + j + d) % 8, stats, vs)
        elif k == "params":
            for net in (1, 2, 3, 0, 4, 255):
                self.one_params(case, net, stats, vs)
        elif k == "one-params":
            self.one_params(case, case["net"], stats, vs)
        elif k == "pubkey":
            for v1 in (False, True):
                for p in reqs.PATHS + ["m/44'/0'/0'/0/1", "m/0/0/0/0/0"]:
                    self.one_pubkey(p, v1, stats, vs, case.get("platform", "ledger"))
        elif k == "one-pubkey":
            self.one_pubkey(case["path"], case["v1"], stats, vs, case.get("platform", "ledger"))
        elif k == "signer-hb":
            self.one_signer_hb(case, stats, vs)
        elif k == "ui-hb":
            self.ui_hb(case, stats, vs)
        elif k == "history":
            self.history(case, stats, vs)
        elif k == "pattern":
            self.pattern(case, stats, vs)
        elif k == "lengths":
            for n in range(0, 37):
                for top in (0x01, 0x80, 0xff):
                    val = int.from_bytes(bytes([top]) + b"\x5a" * (n - 1), "big") if n else 0
                    dev = self.mkdev()
                    dev.difficulty, dev.flags = val, (0, 1, 1)
                    dev.min_difficulty, dev.network = val, 1
                    proto = harness.make_protocol(World(dev))
                    c = dict(case, n=n, top=top)
                    stats.evaluations += 1
                    reply, exc = harness.handle_request(proto, {"command": "blockchainState", "version": 5})
                    self.verify_state(dev, reply, exc, c, vs, ":len%d" % n)
                    reply, exc = harness.handle_request(proto, {"command": "blockchainParameters", "version": 5})
                    self.verify_params(dev, reply, exc, c, vs, ":len%d" % n)
                    stats.observe(("lengths", n, top))
                    if n == 0:
                        break
        return vs

    def pattern(self, case, stats, vs):
        """every reported datum begins and ends with one byte pattern that means something elsewhere
        in the stack (status word, class byte, key prefix, DER tag, header ASCII): reported verbatim"""
        pat = PATTERNS[case["pat"]]
        rng = Rng("c13-pattern-%d" % case["pat"])
        names = list(DOC_HASH_NAMES)

        def setup(dev):
            dev.hashes = {self.sel[DOC_HASH_NAMES[n]]: shaped(rng, 32, pat) for n in names}
            dev.difficulty = int.from_bytes(shaped(rng, 36, pat), "big")
            dev.min_difficulty = int.from_bytes(shaped(rng, 36, pat), "big")
            dev.checkpoint = shaped(rng, 32, pat)
            dev.flags, dev.network = (1, 0, 1), 2
            dev.pubkey_override = b"\x04" + shaped(rng, 32, pat) + shaped(rng, 32, pat)
            dev.app_hash = shaped(rng, 32, pat)
            dev.ui_hash = shaped(rng, 32, pat)
            return dev
        c = dict(case)
        # state, parameters, public key
        dev = setup(self.mkdev())
        proto = harness.make_protocol(World(dev))
        for name, req in (("state", {"command": "blockchainState", "version": 5}),
                          ("params", {"command": "blockchainParameters", "version": 5}),
                          ("pubkey", {"command": "getPubKey", "version": 5, "keyId": reqs.PATHS[1]}),
                          ("pubkey-v1", None)):
            stats.evaluations += 1
            if name == "pubkey-v1":
                proto = harness.make_protocol(World(dev), v1=True)
                req = {"command": "getPubKey", "version": 1, "keyId": reqs.PATHS[3]}
            reply, exc = harness.handle_request(proto, dict(req))
            stats.observe(("pattern", case["pat"], name, reply.get("errorcode") if isinstance(reply, dict) else None),
                          nontrivial=True)
            if name == "state":
                self.verify_state(dev, reply, exc, c, vs, ":pattern")
            elif name == "params":
                self.verify_params(dev, reply, exc, c, vs, ":pattern")
            else:
                want = dev.pubkey_override.hex()
                if exc is not None or not isinstance(reply, dict) or reply.get("errorcode") != 0 \
                        or reply.get("pubKey") != want:
                    self.viol(vs, "pubkey:pattern", name, c, None, {"reply": reply, "exc": exc}, {"pubKey": want})
        # heartbeats: key with each prefix and an X that begins with the prefix byte, user-defined value,
        # r and s in the pattern
        for prefix in (2, 3, 4):
            for ui in (False, True):
                stats.evaluations += 1
                ud = shaped(rng, 32 if ui else 16, pat).hex()
                r, s_ = shaped(rng, 32, pat), shaped(rng, 32, pat)
                sig = der_of(r, s_)

                def run(ctx, prefix=prefix, ui=ui, sig=sig):
                    dev = setup(self.mkdev(cls=HbDevice, ctx=ctx))
                    dev.hb_pubkey = bytes([prefix]) + shaped(Rng("c13-hbk-%d-%d" % (case["pat"], prefix)), 32,
                                                             bytes([prefix]) + pat)
                    dev.signature_for = lambda material: sig
                    w = World(dev)
                    proto = harness.make_protocol(w)
                    reply, exc = harness.handle_request(
                        proto, {"command": "uiHeartbeat" if ui else "signerHeartbeat", "version": 5, "udValue": ud})
                    return dev, w, reply, exc
                ctx, (dev, w, reply, exc) = run_once(run, [])
                code = reply.get("errorcode") if isinstance(reply, dict) else None
                stats.observe(("pattern-hb", case["pat"], prefix, ui, code), nontrivial=True)
                tag = "ui" if ui else "signer"
                if exc is not None or code != 0:
                    self.viol(vs, "heartbeat-fails:pattern", tag, c, None, {"reply": reply, "exc": exc},
                              {"errorcode": 0})
                    continue
                if ui and dev.mode != MODE_SIGNER:
                    self.viol(vs, "ui-heartbeat-mode:pattern", "not-signer", c, None, {"final_mode": dev.mode},
                              {"final_mode": MODE_SIGNER})
                rs = ref_der(sig)
                if ui:
                    msg = b"HSM:UI:HB:5.4:" + bytes.fromhex(ud)
                else:
                    msg = (b"HSM:SIGNER:HB:5.4:" + dev.hashes[self.sel["BEST_BLOCK"]]
                           + dev.hashes[self.sel["ANCESTOR_RECEIPT_ROOT"]][:8] + bytes.fromhex(ud))
                want = {"pubKey": dev.hb_pubkey.hex(), "tweak": (dev.ui_hash if ui else dev.app_hash).hex(),
                        "message": msg.hex(), "signature": {"r": rs[0].hex(), "s": rs[1].hex()}}
                for kk, v in want.items():
                    if reply.get(kk) != v:
                        self.viol(vs, "heartbeat-field:pattern", "%s:%s" % (tag, kk), c, None,
                                  {kk: reply.get(kk)}, {kk: v})

    def history(self, case, stats, vs):
        """the same queries twice on one manager, the device's data changed in between (advance
        of the chain, device replaced behind the same connection object, with or without a
        link failure and reconnection): the second answers must show the *current* data"""
        from ..simdev.powhsm import pseudo_pubkey
        how = case["how"]
        dev = self.mkdev(0)
        dev.difficulty, dev.flags, dev.min_difficulty, dev.network = BIG[2], (1, 0, 1), BIG[1], 1
        w = World(dev)
        proto = harness.make_protocol(w, connected=(how != "bringup"))
        if how == "bringup":
            proto.initialize_device()       # the real bring-up reads version and parameters
        cmds = [("state", {"command": "blockchainState", "version": 5}),
                ("params", {"command": "blockchainParameters", "version": 5}),
                ("pubkey", {"command": "getPubKey", "version": 5, "keyId": reqs.PATHS[1]}),
                ("hb", {"command": "signerHeartbeat", "version": 5, "udValue": "11" * 16})]
        if case["order"]:
            cmds = cmds[::-1]

        def ask(tag):
            for name, req in cmds:
                stats.evaluations += 1
                reply, exc = harness.handle_request(proto, dict(req))
                c = dict(case)
                stats.observe(("history", how, tag, name, reply.get("errorcode") if isinstance(reply, dict) else None))
                if name == "state":
                    self.verify_state(dev, reply, exc, c, vs, tag)
                elif name == "params":
                    self.verify_params(dev, reply, exc, c, vs, tag)
                elif name == "pubkey":
                    want = pseudo_pubkey(dev.seed, reqs.path_binary(reqs.PATHS[1])).hex()
                    if exc is not None or not isinstance(reply, dict) or reply.get("pubKey") != want:
                        self.viol(vs, "pubkey" + tag, "history", c, None, {"reply": reply, "exc": exc},
                                  {"pubKey": want})
                else:
                    want = {"pubKey": dev.hb_pubkey.hex(), "tweak": dev.app_hash.hex()}
                    for kk, v in want.items():
                        if not isinstance(reply, dict) or reply.get(kk) != v:
                            self.viol(vs, "heartbeat-field" + tag, kk, c, None,
                                      {kk: reply.get(kk) if isinstance(reply, dict) else None, "exc": exc}, {kk: v})
        ask(":first")
        # the device's data changes (every field to a different value)
        rng = Rng("c13-second")
        names = list(DOC_HASH_NAMES)
        dev.hashes = {self.sel[DOC_HASH_NAMES[n]]: rng.bytes(32) for n in names}
        dev.difficulty, dev.flags = BIG[3], (0, 1, 0)
        dev.checkpoint, dev.min_difficulty, dev.network = rng.bytes(32), BIG[4], 3
        dev.seed = b"c13-replaced"
        dev.hb_pubkey, dev.app_hash = b"\x03" + rng.bytes(32), rng.bytes(32)
        if how == "relink":
            base = w.seq
            w.inject = lambda world, i, apdu: ("read",) if i == base else None
            harness.handle_request(proto, {"command": "getPubKey", "version": 5, "keyId": reqs.PATHS[0]})
            w.inject = None
        ask(":after-change")

    # ------------------------------------------------------------------
    def one_state(self, case, flags, stats, vs):
        stats.evaluations += 1
        dev = self.mkdev(case["rot"])
        dev.difficulty = BIG[case["diff"]]
        fl = tuple((flags >> i) & 1 for i in range(3))
        dev.flags = fl
        w = World(dev)
        proto = harness.make_protocol(w, platform=case.get("platform", "ledger"))
        reply, exc = harness.handle_request(proto, {"command": "blockchainState", "version": 5})
        c = dict(case, kind="one-state", flags=flags)
        stats.observe(("state", case["diff"], flags, reply.get("errorcode") if reply else None))
        stats.sample({"command": "blockchainState", "difficulty": hex(dev.difficulty), "flags": fl})
        self.verify_state(dev, reply, exc, c, vs)

    def verify_state(self, dev, reply, exc, c, vs, tag=""):
        fl = dev.flags
        if exc is not None or not isinstance(reply, dict) or reply.get("errorcode") != 0:
            self.viol(vs, "state-fails" + tag, "reply", c, None, {"reply": reply, "exc": exc}, {"errorcode": 0})
            return
        st = reply.get("state", {})
        for doc, macro in DOC_HASH_NAMES.items():
            node = st
            for part in doc.split("."):
                node = node.get(part) if isinstance(node, dict) else None
            want = dev.hashes[self.sel[macro]].hex()
            if node != want:
                self.viol(vs, "state-hash" + tag, doc, c, None, {doc: node}, {doc: want})
        upd = st.get("updating", {}) if isinstance(st.get("updating"), dict) else {}
        if upd.get("total_difficulty") != dev.difficulty or isinstance(upd.get("total_difficulty"), bool):
            self.viol(vs, "state-difficulty" + tag, "total_difficulty", c, None,
                      {"total_difficulty": upd.get("total_difficulty")},
                      {"total_difficulty": dev.difficulty})
        for i, fname in enumerate(self.flag_order):
            if upd.get(fname) is not bool(fl[i]):
                self.viol(vs, "state-flag" + tag, fname, c, None, {fname: upd.get(fname)}, {fname: bool(fl[i])})

    def one_params(self, case, net, stats, vs):
        stats.evaluations += 1
        dev = self.mkdev()
        dev.min_difficulty = BIG[case["mind"]]
        dev.network = net
        w = World(dev)
        proto = harness.make_protocol(w, platform=case.get("platform", "ledger"))
        reply, exc = harness.handle_request(proto, {"command": "blockchainParameters", "version": 5})
        c = dict(case, kind="one-params", net=net)
        code = reply.get("errorcode") if isinstance(reply, dict) else None
        stats.observe(("params", case["mind"], net, code, exc is not None))
        if net not in NETWORK_NAMES:
            # the device holds no documented network: any device-error answer will do, but not a crash
            if exc is not None or code not in (-905, -906):
                self.viol(vs, "params-invalid-network", "reply", c, None, {"reply": reply, "exc": exc},
                          {"errorcode": "-905/-906"})
            return
        self.verify_params(dev, reply, exc, c, vs)

    def verify_params(self, dev, reply, exc, c, vs, tag=""):
        net = dev.network
        code = reply.get("errorcode") if isinstance(reply, dict) else None
        if exc is not None or code != 0:
            self.viol(vs, "params-fails" + tag, "reply", c, None, {"reply": reply, "exc": exc}, {"errorcode": 0})
            return
        p = reply.get("parameters", {})
        want = {"checkpoint": dev.checkpoint.hex(), "minimum_difficulty": dev.min_difficulty,
                "network": NETWORK_NAMES[net]}
        for kk, v in want.items():
            if p.get(kk) != v or isinstance(p.get(kk), bool):
                self.viol(vs, "params-field" + tag, kk, c, None, {kk: p.get(kk)}, {kk: v})

    def one_pubkey(self, path, v1, stats, vs, platform="ledger"):
        from ..simdev.powhsm import pseudo_pubkey
        stats.evaluations += 1
        dev = self.mkdev()
        w = World(dev)
        proto = harness.make_protocol(w, v1=v1, platform=platform)
        reply, exc = harness.handle_request(proto, {"command": "getPubKey", "version": 1 if v1 else 5,
                                                    "keyId": path})
        c = {"kind": "one-pubkey", "path": path, "v1": v1, "platform": platform}
        code = reply.get("errorcode") if isinstance(reply, dict) else None
        stats.observe(("pubkey", path in reqs.PATHS, v1, code))
        if path in reqs.PATHS:
            want = pseudo_pubkey(b"c13", reqs.path_binary(path)).hex()
            if exc is not None or code != 0 or reply.get("pubKey") != want:
                self.viol(vs, "pubkey", "v1" if v1 else "v5", c, None, {"reply": reply, "exc": exc},
                          {"pubKey": want})
        else:
            if exc is not None or code != (-2 if v1 else -103):
                self.viol(vs, "pubkey-unlisted", "v1" if v1 else "v5", c, None,
                          {"reply": reply, "exc": exc}, {"errorcode": -2 if v1 else -103})

    def one_signer_hb(self, case, stats, vs):
        name, sig, r, s = self.ders[case["der"]]
        stats.evaluations += 1
        dev = self.mkdev()
        dev.signature_for = lambda material: sig
        w = World(dev)
        proto = harness.make_protocol(w, platform=case.get("platform", "ledger"))
        ud = Rng("c13-ud").bytes(16).hex()
        reply, exc = harness.handle_request(proto, {"command": "signerHeartbeat", "version": 5,
                                                    "udValue": ud})
        stats.observe(("signer-hb", name, reply.get("errorcode") if isinstance(reply, dict) else None))
        if exc is not None or not isinstance(reply, dict) or reply.get("errorcode") != 0:
            self.viol(vs, "heartbeat-fails", name, case, None, {"reply": reply, "exc": exc}, {"errorcode": 0})
            return
        rs = ref_der(sig)
        want = {"pubKey": dev.hb_pubkey.hex(), "tweak": dev.app_hash.hex(),
                "message": (b"HSM:SIGNER:HB:5.4:" + dev.hashes[self.sel["BEST_BLOCK"]]
                            + dev.hashes[self.sel["ANCESTOR_RECEIPT_ROOT"]][:8] + bytes.fromhex(ud)).hex(),
                "signature": {"r": rs[0].hex(), "s": rs[1].hex()}}
        for kk, v in want.items():
            if reply.get(kk) != v:
                self.viol(vs, "heartbeat-field", kk, case, None, {kk: reply.get(kk)}, {kk: v})

    # ------------------------------------------------------------------
    def ui_hb(self, case, stats, vs):
        ud = Rng("c13-ud32").bytes(32).hex()

        def run(ctx):
            dev = self.mkdev(cls=HbDevice, ctx=ctx)
            w = World(dev)
            orig = w.get_dongle
            first = [True]

            def get_dongle(*a, **k):
                if first[0]:
                    first[0] = False
                    return orig()
                if ctx.choose(2, "reconnect") == 1:
                    w.connect_failures = 1
                return orig()
            w.get_dongle = get_dongle
            proto = harness.make_protocol(w)
            reply, exc = harness.handle_request(proto, {"command": "uiHeartbeat", "version": 5,
                                                        "udValue": ud})
            return dev, w, reply, exc

        def check(ctx, obs):
            dev, w, reply, exc = obs
            c = dict(case, choices=list(ctx.choices))
            code = reply.get("errorcode") if isinstance(reply, dict) else None
            stats.observe(("ui-hb", code, dev.mode, exc is not None), nontrivial=True)
            if any(ctx.choices):
                stats.sample({"command": "uiHeartbeat", "choices": list(ctx.choices),
                              "labels": [p[1] for p in ctx.points], "reply_code": code,
                              "final_mode": dev.mode}, cap=3)
            if exc is not None or code not in (0, -905):
                self.viol(vs, "ui-heartbeat-reply", "code", c, list(ctx.choices),
                          {"reply": reply, "exc": exc}, {"errorcode": "0 or -905"})
                return
            if code == 0:
                if dev.mode != MODE_SIGNER:
                    self.viol(vs, "ui-heartbeat-mode", "not-signer", c, list(ctx.choices),
                              {"final_mode": dev.mode, "reply": reply}, {"final_mode": MODE_SIGNER})
                msg = (b"HSM:UI:HB:5.4:" + bytes.fromhex(ud)).hex()
                want = {"pubKey": dev.hb_pubkey.hex(), "tweak": dev.ui_hash.hex(), "message": msg}
                for kk, v in want.items():
                    if reply.get(kk) != v:
                        self.viol(vs, "ui-heartbeat-field", kk, c, list(ctx.choices),
                                  {kk: reply.get(kk)}, {kk: v})

        if "choices" in case:
            ctx, obs = run_once(run, case["choices"])
            check(ctx, obs)
            return
        explore(run, check, stats, bound=None)

    def replay(self, case, choices):
        from ..xplore import Stats
        c = dict(case)
        if choices:
            c["choices"] = list(choices)
        return self.run_case(c, Stats())


CHECK = C13
