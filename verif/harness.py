"""Glue between the real middleware objects and the simulated world."""
import io
import json

from . import env
from .simdev.base import World, HidStub

env.install()

import ledger.hsm2dongle as H            # noqa: E402
import ledger.hsm2dongle_tcp as HT       # noqa: E402
import ledger.protocol as LP             # noqa: E402
import ledger.protocol_v1 as LP1         # noqa: E402
import comm.server as SRV                # noqa: E402
from comm.platform import Platform       # noqa: E402


class _NoSleep:
    """stands in for the ``time`` module where the protocol module imported it: sleep returns at
    once, the wall clock stands still; anything else the code under test may come to use
    (monotonic, perf_counter, strftime ...) is the real module's."""

    def __init__(self):
        self.slept = 0.0

    def sleep(self, n):
        self.slept += n
        env.sched_sleep()

    def time(self):
        return 1700000000.0

    def __getattr__(self, name):
        import time as _t
        return getattr(_t, name)


_CURRENT = {"world": None}


def _global_get_dongle(*a, **k):
    return _CURRENT["world"].get_dongle(*a, **k)


def bind_world(world):
    """Point every transport seam of the middleware at ``world``: the names the modules
    imported (``from ledgerblue.comm import getDongle``) and the library functions themselves
    (should the code under test come to call ``ledgerblue.comm.getDongle`` through the module)."""
    import ledgerblue.comm as LC
    import ledgerblue.commTCP as LCT
    _CURRENT["world"] = world
    from .simdev import base as _base
    _base.CURRENT_WORLD[0] = world
    LC.getDongle = _global_get_dongle
    LCT.getDongle = _global_get_dongle
    for mod in (H, HT):
        if "getDongle" in vars(mod):
            mod.getDongle = world.get_dongle
    if "hid" in vars(H):
        H.hid = HidStub
    # ... and in the library itself, should the code under test import it some other way (lazily,
    # `from hid import hidapi_exit`)
    try:
        import hid as _hid
        _hid.hidapi_exit = HidStub.hidapi_exit
    except ImportError:
        pass
    if "time" in vars(LP):
        LP.time = _NoSleep()


def make_dongle(world, platform="ledger", debug=False):
    """debug: the managers' -D/--iodebug option (the flag every dongle class takes)"""
    bind_world(world)
    world.platform = platform
    if platform == "ledger":
        Platform.set(Platform.LEDGER)
        return H.HSM2Dongle(debug)
    if platform == "sgx":
        from sgx.hsm2dongle import HSM2DongleSGX
        Platform.set(Platform.SGX)
        return HSM2DongleSGX("sgxhost", 7777, debug)
    Platform.set(Platform.X86)
    return HT.HSM2DongleTCP("tcphost", 8888, debug)


class FixedPin:
    """Minimal stand-in for a PIN source where the PIN is irrelevant (signer mode)."""

    def get_pin(self):
        return b"1234567a"

    def needs_change(self):
        return False


def make_protocol(world, v1=False, pin=None, platform="ledger", connected=True, debug=False):
    """A real HSM2ProtocolLedger / HSM1ProtocolLedger on top of a real HSM2Dongle whose
    transport is the simulated world.  ``connected`` => dongle.connect() already done
    (what initialize_device leaves behind), without running the bring-up checks."""
    dongle = make_dongle(world, platform, debug)
    proto = (LP1.HSM1ProtocolLedger if v1 else LP.HSM2ProtocolLedger)(pin or FixedPin(), dongle)
    if connected:
        dongle.connect()
    return proto


class Outcome:
    __slots__ = ("raw", "lines", "reply", "exc", "shutdown", "error")

    def __repr__(self):
        return "Outcome(raw=%r exc=%r)" % (self.raw[:200], self.exc)


class _Null:
    def __getattr__(self, name):
        return lambda *a, **k: None


def handle_line(proto, line):
    """Drive comm.server._RequestHandler.handle with one request line (bytes).
    Returns an Outcome: bytes written, parsed reply, exception class leaving the handler."""
    rfile = io.BytesIO(line if line.endswith(b"\n") else line + b"\n")
    wfile = io.BytesIO()
    h = SRV._RequestHandler(proto, _Null())
    o = Outcome()
    o.exc = None
    o.shutdown = False
    o.error = None
    try:
        h.handle("client", rfile, wfile)
    except SRV.RequestHandlerShutdown as e:
        o.exc = "RequestHandlerShutdown"
        o.shutdown = True
        o.error = str(e)
    except SRV.RequestHandlerError as e:
        o.exc = "RequestHandlerError"
        o.shutdown = True
        o.error = str(e)
    except BaseException as e:   # noqa
        o.exc = type(e).__name__
        o.error = str(e)
    o.raw = wfile.getvalue()
    o.lines = o.raw.split(b"\n")
    o.reply = None
    try:
        if o.raw.endswith(b"\n") and o.raw.count(b"\n") == 1:
            o.reply = json.loads(o.raw.decode("utf-8"))
    except Exception:
        o.reply = None
    return o


LAST_EXC_SITE = [None]


def handle_request(proto, request):
    """protocol.handle_request with exceptions captured.  Returns (reply, exc_name);
    LAST_EXC_SITE[0] = 'ExcType@file:function' of the innermost /repo frame."""
    try:
        LAST_EXC_SITE[0] = None
        return proto.handle_request(request), None
    except BaseException as e:   # noqa
        LAST_EXC_SITE[0] = "%s@%s" % (type(e).__name__, innermost_repo_frame(e))
        return None, type(e).__name__ + ":" + str(e)[:200]


def innermost_repo_frame(exc):
    """file:function of the innermost /repo frame of an exception (for finding keys)."""
    import traceback
    best = None
    for fs in traceback.extract_tb(exc.__traceback__):
        if env.MIDDLEWARE in fs.filename:
            best = "%s:%s" % (fs.filename[len(env.MIDDLEWARE) + 1:], fs.name)
    return best
