"""Harness side of the certificate checks (C06, C07, C16): runs the code under test.

Certificates are loaded through ``HSMCertificate.from_jsonfile`` with the module-level ``open``
of admin.certificate_v1 replaced by an in-memory file layer; the clock of admin.certificate_v2
is a fixed one; a step budget (``sys.settrace`` line counter on middleware frames) plus a
wall-clock alarm turn endless loops into observations.
"""
import json
import os
import signal
import sys

from . import env
from .gen.certs import MemFS


class Budget(BaseException):
    """Raised inside the code under test when the step budget is exhausted."""


class FixedClock:
    """Stand-in for the ``datetime`` class as used by admin.certificate_v2 (``datetime.now(UTC)``)."""

    def __init__(self, now):
        self._now = now

    def now(self, tz=None):
        if tz is None:
            return self._now.replace(tzinfo=None)
        return self._now.astimezone(tz)


def _alarm(signum, frame):
    raise Budget("wall-clock")


class CertImpl:
    def __init__(self):
        env.install()
        import warnings
        try:
            from cryptography.utils import CryptographyDeprecationWarning
            warnings.filterwarnings("ignore", category=CryptographyDeprecationWarning)
        except ImportError:
            pass
        import admin.certificate as AC
        import admin.certificate_v1 as V1
        import admin.certificate_v2 as V2
        self.AC, self.V1, self.V2 = AC, V1, V2
        self.fs = MemFS()
        self.prefix = os.path.join(env.MIDDLEWARE, "")
        self.real_datetime = V2.datetime
        self.max_lines_seen = 0

    # ---- budgeted call ----------------------------------------------------------------
    def budgeted(self, fn, max_lines=40000, wall_s=30):
        """Run fn() counting executed lines of middleware frames.  -> ("ok", value) /
        ("raise", exception) / ("budget", reason)"""
        prefix = self.prefix
        count = [0]

        def local(frame, event, arg):
            if event == "line":
                count[0] += 1
                if count[0] > max_lines:
                    raise Budget("lines")
            return local

        def tracer(frame, event, arg):
            if frame.f_code.co_filename.startswith(prefix):
                return local
            return None

        old_handler = signal.signal(signal.SIGALRM, _alarm)
        signal.setitimer(signal.ITIMER_REAL, wall_s)
        old_trace = sys.gettrace()
        sys.settrace(tracer)
        try:
            try:
                r = ("ok", fn())
            finally:
                sys.settrace(old_trace)
                signal.setitimer(signal.ITIMER_REAL, 0)
                signal.signal(signal.SIGALRM, old_handler)
        except Budget as b:
            return ("budget", str(b))
        except Exception as e:   # noqa
            self.max_lines_seen = max(self.max_lines_seen, count[0])
            return ("raise", e)
        self.max_lines_seen = max(self.max_lines_seen, count[0])
        return r

    # ---- loading ------------------------------------------------------------------------
    def load_text(self, text, path="mem://cert.json"):
        self.fs.files[path] = text
        with env.patched((self.V1, "open", self.fs.open)):
            return self.AC.HSMCertificate.from_jsonfile(path)

    def load(self, doc, path="mem://cert.json"):
        return self.load_text(json.dumps(doc), path)

    def save(self, cert, path="mem://saved.json"):
        with env.patched((self.V1, "open", self.fs.open)):
            cert.save_to_jsonfile(path)
        return self.fs.files[path]

    # ---- roots ------------------------------------------------------------------------------
    def root_v1(self, pub_hex):
        return self.AC.HSMCertificateRoot(pub_hex)

    def root_v2(self, pem):
        return self.AC.HSMCertificateV2ElementX509.from_pem(
            pem, self.AC.HSMCertificateV2.ROOT_ELEMENT, self.AC.HSMCertificateV2.ROOT_ELEMENT)

    def clock(self, now):
        return env.patched((self.V2, "datetime", FixedClock(now)))

    # ---- whole runs ---------------------------------------------------------------------
    def _load(self, doc, guarded):
        if not guarded:
            try:
                return ("ok", self.load(doc))
            except Exception as e:   # noqa
                return ("loaderr", e)
        out = self.budgeted(lambda: self.load(doc))
        return ("loaderr", out[1]) if out[0] == "raise" else out

    def run_v1(self, doc, root_hex, guarded=False):
        """-> ("loaderr", exc) | ("budget", why) | ("result", map) | ("raise", exc: validation raised)

        guarded: load under the step budget (documents whose targets have no path to the root)."""
        ld = self._load(doc, guarded)
        if ld[0] != "ok":
            return ld
        try:
            return ("result", ld[1].validate_and_get_values(self.root_v1(root_hex)))
        except Exception as e:   # noqa
            return ("raise", e)

    def run_v2(self, doc, root_pem, now, guarded=False):
        ld = self._load(doc, guarded)
        if ld[0] != "ok":
            return ld
        with self.clock(now):
            try:
                root = self.root_v2(root_pem)
                return ("result", ld[1].validate_and_get_values(root))
            except Exception as e:   # noqa
                return ("raise", e)

    def where(self, exc):
        """(element class or '-', innermost frame of the tree under test) of an exception."""
        import traceback
        cls, frame = "-", "-"
        for fs, _ in traceback.walk_tb(exc.__traceback__):
            fn = fs.f_code.co_filename
            if fn.startswith(self.prefix):
                frame = "%s:%s" % (fn[len(self.prefix):], fs.f_code.co_name)
                slf = fs.f_locals.get("self")
                if slf is not None and type(slf).__name__.startswith("HSMCertificate") and \
                        "Element" in type(slf).__name__:
                    cls = type(slf).__name__
        return cls, frame


def norm_v2_value(v):
    """Comparable form of a version-2 target value."""
    if isinstance(v, dict) and "sgx_quote" in v:
        q = v["sgx_quote"]
        return {"message": v.get("message"), "sgx_quote": q.to_dict()}
    return v


def norm_result(res):
    out = {}
    for k, v in res.items():
        if isinstance(v, tuple) and len(v) == 3 and v[0] is True:
            out[k] = (True, norm_v2_value(v[1]), v[2])
        else:
            out[k] = v
    return out
