"""Harness side of the certificate checks (C06, C07, C16): runs the code under test.

Only the public surface the admin tools use is touched: ``HSMCertificate.from_jsonfile`` /
``save_to_jsonfile`` on real files of a session directory (whatever file API the code uses),
``validate_and_get_values``, ``to_dict``, ``HSMCertificateRoot``,
``HSMCertificateV2ElementX509.from_pem``.  The clock is owned at every door a pure-Python
implementation can take (see ``OwnedClock``); a step budget (``sys.settrace`` line counter on
frames of the tree under test) plus a wall-clock alarm turn endless loops into observations.
"""
import atexit
import datetime as _datetime_module
import json
import os
import shutil
import signal
import sys
import tempfile
import time as _time_module
import types

from . import env

_REAL_DATETIME = _datetime_module.datetime
_REAL_TIME = _time_module.time
_REAL_TIME_NS = _time_module.time_ns


_WRAP = {"frozen": None}


def install_time_wrapper():
    """Replace time.time / time.time_ns (attributes of the time module) by pass-through wrappers that
    can be frozen.  Done before the tree under test is imported, so that references the code
    captures at import (class attributes, default arguments, functools.partial) are the wrappers."""
    if getattr(_time_module.time, "_verif_wrapper", False):
        return

    def time():
        f = _WRAP["frozen"]
        return _REAL_TIME() if f is None else f

    def time_ns():
        f = _WRAP["frozen"]
        return _REAL_TIME_NS() if f is None else int(f * 1000000000)
    time._verif_wrapper = True
    time_ns._verif_wrapper = True
    _time_module.time = time
    _time_module.time_ns = time_ns


class Budget(BaseException):
    """Raised inside the code under test when the step budget is exhausted."""


class _FixedMeta(type):
    """Real datetime objects are instances of the stand-in class too (code that type-checks a
    datetime against the patched name keeps working)."""

    def __instancecheck__(cls, obj):
        return isinstance(obj, _REAL_DATETIME)

    def __subclasscheck__(cls, sub):
        return issubclass(sub, _REAL_DATETIME)


def fixed_datetime_class(now):
    """A subclass of datetime.datetime whose now()/utcnow()/today() give `now` (an aware UTC time)."""

    class FixedDatetime(_REAL_DATETIME, metaclass=_FixedMeta):
        @classmethod
        def now(cls, tz=None):
            if tz is None:
                return now.astimezone().replace(tzinfo=None)
            return now.astimezone(tz)

        @classmethod
        def utcnow(cls):
            return now.astimezone(_datetime_module.timezone.utc).replace(tzinfo=None)

        @classmethod
        def today(cls):
            return now.astimezone().replace(tzinfo=None)

    return FixedDatetime


class _ModuleProxy(types.ModuleType):
    """A module with a few attributes replaced, everything else passed through."""

    def __init__(self, real, **over):
        super().__init__(real.__name__)
        self.__dict__["_real"] = real
        self.__dict__.update(over)

    def __getattr__(self, name):
        return getattr(self.__dict__["_real"], name)


class OwnedClock:
    """Context manager: the code under test sees `now` whichever way it asks for the time:

    * every global of every loaded module of the tree under test that is the ``datetime`` class
      (under any alias), the ``datetime`` module, the ``time`` module, ``time.time`` or
      ``time.time_ns`` is replaced for the duration;
    * ``sys.modules["datetime"]`` / ``["time"]`` are proxies for the duration, which covers imports
      executed inside functions;
    * ``time.time`` / ``time.time_ns`` themselves are frozen wrappers (``install_time_wrapper``), so a
      reference to them captured at import time is owned too.  A captured ``datetime.now`` cannot be
      owned: ``CertImpl.settle_clock`` notices and moves the whole check to the real present.

    The attributes of the real ``datetime`` / ``time`` modules are never touched, and
    ``warm_up_extensions`` makes the extension modules in use resolve (and cache) the real
    ``datetime.datetime`` before the first context is entered.  A clock value captured before the
    context is entered (at import time) is, rightly, not covered."""

    def __init__(self, prefix, now, tz=None, owned=True):
        """tz: POSIX TZ string (e.g. "VRF3" = UTC-3, "VRF-5:30" = UTC+5:30) put in force for the
        duration with time.tzset(), so that the naive local time the code may ask for
        (datetime.now(), today(), fromtimestamp(), time.localtime()) differs from UTC."""
        self.prefix, self.now, self.saved, self.saved_modules = prefix, now, [], []
        self.tz, self.old_tz = tz, None
        self.owned = owned and now is not None     # otherwise only the time zone is put in force

    def _set(self, obj, name, val):
        self.saved.append((obj, name, obj.__dict__[name]))
        setattr(obj, name, val)

    def __enter__(self):
        now = self.now
        if self.tz is not None:
            self.old_tz = os.environ.get("TZ", "")
            os.environ["TZ"] = self.tz
            _time_module.tzset()
        if not self.owned:
            return self
        fixed = fixed_datetime_class(now)
        ts = now.timestamp()
        _WRAP["frozen"] = ts

        def fake_time():
            return ts

        def fake_time_ns():
            return int(ts * 1000000000)
        dt_mod = _ModuleProxy(_datetime_module, datetime=fixed)
        t_mod = _ModuleProxy(_time_module, time=fake_time, time_ns=fake_time_ns)
        table = ((_REAL_DATETIME, fixed), (_datetime_module, dt_mod), (_time_module, t_mod),
                 (_REAL_TIME, fake_time), (_REAL_TIME_NS, fake_time_ns))
        # (the frozen wrappers installed by install_time_wrapper need no replacing)
        for mod in list(sys.modules.values()):
            f = getattr(mod, "__file__", None)
            if not f or not f.startswith(self.prefix):
                continue
            for name, val in list(vars(mod).items()):
                for real, rep in table:
                    if val is real:
                        self._set(mod, name, rep)
        # imports executed inside functions of the tree under test (`import datetime`,
        # `from time import time`) resolve through sys.modules at call time
        for name, proxy in (("datetime", dt_mod), ("time", t_mod)):
            self.saved_modules.append((name, sys.modules.get(name)))
            sys.modules[name] = proxy
        return self

    def __exit__(self, *a):
        _WRAP["frozen"] = None
        for name, old in self.saved_modules:
            if old is None:
                sys.modules.pop(name, None)
            else:
                sys.modules[name] = old
        self.saved_modules = []
        for obj, name, old in reversed(self.saved):
            setattr(obj, name, old)
        self.saved = []
        if self.tz is not None:
            if self.old_tz:
                os.environ["TZ"] = self.old_tz
            else:
                os.environ.pop("TZ", None)
            _time_module.tzset()
        return False


def warm_up_extensions():
    """cryptography's Rust layer looks `datetime.datetime` up lazily and keeps it: make it do so now."""
    from cryptography import x509
    from cryptography.x509.oid import NameOID
    from cryptography.hazmat.primitives import hashes
    from cryptography.hazmat.primitives.asymmetric import ec
    import warnings
    key = ec.derive_private_key(7, ec.SECP256R1())
    name = x509.Name([x509.NameAttribute(NameOID.COMMON_NAME, "warm-up")])
    t0 = _REAL_DATETIME(2030, 1, 1, tzinfo=_datetime_module.timezone.utc)
    cert = (x509.CertificateBuilder().subject_name(name).issuer_name(name).public_key(key.public_key())
            .serial_number(5).not_valid_before(t0).not_valid_after(t0 + _datetime_module.timedelta(days=1))
            .sign(key, hashes.SHA256()))
    with warnings.catch_warnings():
        warnings.simplefilter("ignore")
        for attr in ("not_valid_before_utc", "not_valid_after_utc", "not_valid_before", "not_valid_after"):
            getattr(cert, attr, None)


# ---- verdicts as the tools read them: result[target][0], [1], [2] ------------------------------
def verdict(g):
    """-> ("ok", value, tweak) | ("fail", name) | None when `g` is not a verdict.  Any sequence
    whose first item is a bool is accepted (tuple, list, named tuple)."""
    if not isinstance(g, (tuple, list)) or len(g) < 2 or not isinstance(g[0], bool):
        return None
    if g[0]:
        return ("ok", g[1], g[2] if len(g) > 2 else None)
    return ("fail", g[1])


def same_hex(a, b):
    """Equality of two hex strings as bytes (case and blanks do not matter); None equals None."""
    if a is None or b is None:
        return a is None and b is None
    try:
        return bytes.fromhex(a) == bytes.fromhex(b)
    except (ValueError, TypeError):
        return a == b


def _alarm(signum, frame):
    raise Budget("wall-clock")


def _cpu_alarm(signum, frame):
    raise Budget("cpu-time")


class CertImpl:
    def __init__(self):
        env.install()
        import warnings
        try:
            from cryptography.utils import CryptographyDeprecationWarning
            warnings.filterwarnings("ignore", category=CryptographyDeprecationWarning)
        except ImportError:
            pass
        warm_up_extensions()
        install_time_wrapper()
        import admin.certificate as AC      # the module the admin tools import from
        self.owned = True
        self.AC = AC
        self.prefix = os.path.join(env.MIDDLEWARE, "")
        self.max_lines_seen = 0
        # real files (the code under test may open them any way it likes) in a session directory,
        # on tmpfs when there is one; removed by the process that created it
        base = "/dev/shm" if os.path.isdir("/dev/shm") and os.access("/dev/shm", os.W_OK) else None
        self.dir = tempfile.mkdtemp(prefix="verif-cert-", dir=base)
        self.owner = os.getpid()
        atexit.register(self.cleanup)

    def cleanup(self):
        if os.getpid() == self.owner:
            shutil.rmtree(self.dir, ignore_errors=True)

    def path(self, name):
        return os.path.join(self.dir, "%d-%s.json" % (os.getpid(), name))

    # ---- budgeted call ----------------------------------------------------------------
    def budgeted(self, fn, max_lines=40000, wall_s=30, cpu_s=3.0):
        """Run fn() counting executed lines of middleware frames, with a CPU-time alarm (loops inside
        extension code, e.g. a backtracking regular expression, execute no Python line) and a
        wall-clock alarm behind it.  -> ("ok", value) / ("raise", exception) / ("budget", reason)"""
        prefix = self.prefix
        count = [0]

        def local(frame, event, arg):
            if event == "line":
                count[0] += 1
                if count[0] > max_lines:
                    raise Budget("lines")
            return local

        def tracer(frame, event, arg):
            if frame.f_code.co_filename.startswith(prefix):
                return local
            return None

        old_handler = signal.signal(signal.SIGALRM, _alarm)
        old_vhandler = signal.signal(signal.SIGVTALRM, _cpu_alarm)
        signal.setitimer(signal.ITIMER_REAL, wall_s)
        signal.setitimer(signal.ITIMER_VIRTUAL, cpu_s)
        old_trace = sys.gettrace()
        sys.settrace(tracer)
        try:
            try:
                r = ("ok", fn())
            finally:
                sys.settrace(old_trace)
                signal.setitimer(signal.ITIMER_VIRTUAL, 0)
                signal.setitimer(signal.ITIMER_REAL, 0)
                signal.signal(signal.SIGALRM, old_handler)
                signal.signal(signal.SIGVTALRM, old_vhandler)
        except Budget as b:
            return ("budget", str(b))
        except Exception as e:   # noqa
            self.max_lines_seen = max(self.max_lines_seen, count[0])
            return ("raise", e)
        self.max_lines_seen = max(self.max_lines_seen, count[0])
        return r

    # ---- loading ------------------------------------------------------------------------
    def load_text(self, text, name="cert"):
        path = self.path(name)
        with open(path, "w", encoding="utf-8") as f:
            f.write(text)
        return self.AC.HSMCertificate.from_jsonfile(path)

    def load(self, doc, name="cert"):
        return self.load_text(json.dumps(doc), name)

    def save(self, cert, name="saved"):
        path = self.path(name)
        if os.path.exists(path):
            os.unlink(path)
        cert.save_to_jsonfile(path)
        with open(path, "r", encoding="utf-8") as f:
            return f.read()

    # ---- roots ------------------------------------------------------------------------------
    def root_v1(self, pub_hex):
        return self.AC.HSMCertificateRoot(pub_hex)

    def root_v2(self, pem):
        return self.AC.HSMCertificateV2ElementX509.from_pem(
            pem, self.AC.HSMCertificateV2.ROOT_ELEMENT, self.AC.HSMCertificateV2.ROOT_ELEMENT)

    def clock(self, now, tz=None):
        return OwnedClock(self.prefix, now, tz, owned=self.owned)

    def settle_clock(self, doc, root_pem, inside, target="quote"):
        """doc: a genuine chain valid at `inside`, an instant far from the real present.  If the code
        under test accepts it under the owned clock, it reads doors the harness owns (exact instants
        can be probed).  Otherwise it reads a clock the harness cannot reach (a bound method of the
        real datetime class captured at import, an extension module's notion of now) or a value
        frozen at import: the check then works at the REAL present - validity periods are generated
        around it (some beginning after the tree under test was imported), instants are compared
        with margins, time zones are still put in force.  -> True when owned."""
        got = self.run_v2(doc, root_pem, inside)
        vd = verdict(got[1].get(target)) if got[0] == "result" and hasattr(got[1], "get") else None
        self.owned = bool(vd and vd[0] == "ok")
        return self.owned

    @staticmethod
    def present():
        """The real present (UTC), whatever wrappers are in force."""
        return _REAL_DATETIME.fromtimestamp(_REAL_TIME(), _datetime_module.timezone.utc)

    def fresh_reference_instant(self):
        """A whole second of the real present that begins after this call returns (hence after the
        tree under test was imported)."""
        t = int(_REAL_TIME()) + 1
        while _REAL_TIME() < t + 0.05:
            _time_module.sleep(0.05)
        return _REAL_DATETIME.fromtimestamp(t, _datetime_module.timezone.utc)

    # ---- whole runs ---------------------------------------------------------------------
    def _load(self, doc, guarded):
        if not guarded:
            try:
                return ("ok", self.load(doc))
            except Exception as e:   # noqa
                return ("loaderr", e)
        out = self.budgeted(lambda: self.load(doc))
        return ("loaderr", out[1]) if out[0] == "raise" else out

    def run_v1(self, doc, root_hex, guarded=False, repeats=0):
        """-> ("loaderr", exc) | ("budget", why) | ("result", map) | ("raise", exc: validation raised)

        guarded: load under the step budget (documents whose targets have no path to the root)."""
        ld = self._load(doc, guarded)
        if ld[0] != "ok":
            return ld
        try:
            root = self.root_v1(root_hex)
            first = ld[1].validate_and_get_values(root)
            # the same loaded object validated again must say the same
            for n in range(repeats):
                again = ld[1].validate_and_get_values(root)
                if again != first:
                    return ("unstable", {"call 1": first, "call %d" % (n + 2): again})
            return ("result", first)
        except Exception as e:   # noqa
            return ("raise", e)

    def run_v2(self, doc, root_pem, now, guarded=False, tz=None, repeats=0):
        ld = self._load(doc, guarded)
        if ld[0] != "ok":
            return ld
        with self.clock(now, tz):
            try:
                root = self.root_v2(root_pem)
                first = ld[1].validate_and_get_values(root)
                if repeats:
                    n1 = norm_result(first)
                    for n in range(repeats):
                        again = norm_result(ld[1].validate_and_get_values(root))
                        if again != n1:
                            return ("unstable", {"call 1": n1, "call %d" % (n + 2): again})
                return ("result", first)
            except Exception as e:   # noqa
                return ("raise", e)

    def where(self, exc):
        """(element class or '-', innermost frame of the tree under test) of an exception."""
        import traceback
        cls, frame = "-", "-"
        for fs, _ in traceback.walk_tb(exc.__traceback__):
            fn = fs.f_code.co_filename
            if fn.startswith(self.prefix):
                frame = "%s:%s" % (fn[len(self.prefix):], fs.f_code.co_name)
                slf = fs.f_locals.get("self")
                if slf is not None and type(slf).__name__.startswith("HSMCertificate") and \
                        "Element" in type(slf).__name__:
                    cls = type(slf).__name__
        return cls, frame


_QUOTE_SHAPE = None


def read_struct(obj, shape):
    """Fields of a reported struct read through attributes (what the tools do), by the documented
    field names; byte arrays as lower-case hex, integers as they are."""
    out = {}
    for k, v in shape.items():
        got = getattr(obj, k)
        if isinstance(v, dict):
            out[k] = read_struct(got, v)
        elif isinstance(got, (bytes, bytearray, memoryview)):
            out[k] = bytes(got).hex()
        else:
            out[k] = got
    return out


def norm_v2_value(v):
    """Comparable form of a version-2 target value."""
    global _QUOTE_SHAPE
    if isinstance(v, dict) and "sgx_quote" in v:
        if _QUOTE_SHAPE is None:
            from .refs import certref
            _QUOTE_SHAPE = certref.quote_fields(bytes(certref.QUOTE_LEN))   # field names only
        msg = v.get("message")
        return {"message": msg.lower() if isinstance(msg, str) else msg,
                "sgx_quote": read_struct(v["sgx_quote"], _QUOTE_SHAPE)}
    return v


def norm_result(res):
    out = {}
    for k, v in res.items():
        vd = verdict(v)
        if vd is not None and vd[0] == "ok":
            out[k] = (True, norm_v2_value(vd[1]), vd[2])
        elif vd is not None:
            out[k] = (False, vd[1])
        else:
            out[k] = v
    return out
