"""Nominal requests of every command (Appendix A of DESIGN.md) with data sized so that
every streaming phase needs >= 2 exchanges, and classification of each exchange."""
from .env import Rng
from . import reqs


def nominal_requests():
    rng = Rng("dialogues")
    redeem = reqs.redeem_script(rng)
    tx = reqs.mk_tx(rng, [reqs.signed_script(rng, 2, (True, False), redeem),
                          reqs.signed_script(rng, 2, (False, True), redeem)], nout=2)
    receipt = reqs.mk_receipt(rng, 170).hex()
    proof = [rng.nz_bytes(90).hex(), rng.nz_bytes(100).hex()]
    ws = rng.nz_bytes(120).hex()
    b1, _ = reqs.mk_block(rng, 19)
    b2, _ = reqs.mk_block(rng, 20)
    br, _ = reqs.mk_block(rng, 19)
    u1, _ = reqs.mk_block(rng, 17)
    u2, _ = reqs.mk_block(rng, 20)
    P = reqs.PATHS
    R = {}
    R["getPubKey"] = {"command": "getPubKey", "version": 5, "keyId": P[0]}
    R["sign-hash"] = reqs.sign_request(P[2], hash_hex=rng.bytes(32).hex())
    R["sign-legacy"] = reqs.sign_request(P[0], tx.hex(), 1, "legacy", receipt, proof)
    R["sign-segwit"] = reqs.sign_request(P[1], tx.hex(), 0, "segwit", receipt, proof,
                                         witness_script=ws, outpoint_value=123456789)
    R["advance-brothers"] = {"command": "advanceBlockchain", "version": 5,
                             "blocks": [b1.hex(), b2.hex()], "brothers": [[br.hex()], []]}
    R["advance-nobrothers"] = {"command": "advanceBlockchain", "version": 5,
                               "blocks": [b1.hex(), b2.hex()], "brothers": [[], []]}
    R["advance-partial"] = {"command": "advanceBlockchain", "version": 5,
                            "blocks": [b2.hex(), b1.hex()], "brothers": [[], [br.hex()]]}
    R["updateAncestor"] = {"command": "updateAncestorBlock", "version": 5,
                           "blocks": [u1.hex(), u2.hex()]}
    R["reset"] = {"command": "resetAdvanceBlockchain", "version": 5}
    R["state"] = {"command": "blockchainState", "version": 5}
    R["params"] = {"command": "blockchainParameters", "version": 5}
    R["signerHeartbeat"] = {"command": "signerHeartbeat", "version": 5, "udValue": rng.bytes(16).hex()}
    R["uiHeartbeat"] = {"command": "uiHeartbeat", "version": 5, "udValue": rng.bytes(32).hex()}
    # the device is already in the UI heartbeat application: the heartbeat is gathered in place
    R["uiHeartbeat-inplace"] = {"command": "uiHeartbeat", "version": 5, "udValue": rng.bytes(32).hex()}
    R["v1-getPubKey"] = {"command": "getPubKey", "version": 1, "keyId": P[3]}
    R["v1-sign"] = reqs.sign_request(P[5], hash_hex=rng.bytes(32).hex(), version=1)
    return R


# per-dialogue configuration of the conforming device (attribute -> value)
DEVCFG = {"advance-partial": {"advance_final": "partial"}, "uiHeartbeat-inplace": {"mode": 4}}


def configure(dev, name):
    for k, v in DEVCFG.get(name, {}).items():
        setattr(dev, k, v)
    return dev


def command_of(name, req):
    return req["command"]


def classify_exchange(name, apdu):
    """kind of step an APDU belongs to (for the named-cause table)"""
    cmd = apdu[1]
    op = apdu[2] if len(apdu) > 2 else None
    if cmd == 0x04:
        return "pubkey"
    if cmd == 0x02:
        return {1: "sign-path", 2: "sign-btc", 4: "sign-receipt", 8: "sign-proof"}.get(op, "sign-?")
    if cmd == 0x10:
        return {2: "adv-init", 3: "adv-meta", 4: "adv-chunk", 7: "adv-blist", 8: "adv-bmeta",
                9: "adv-bchunk"}.get(op, "adv-?")
    if cmd == 0x30:
        return {2: "upd-init", 3: "upd-meta", 4: "upd-chunk"}.get(op, "upd-?")
    if cmd == 0x20:
        return "state"
    if cmd == 0x21:
        return "reset"
    if cmd == 0x11:
        return "params"
    if cmd == 0x60:
        return "heartbeat"
    if cmd == 0x43:
        return "mode"
    if cmd == 0xFF:
        return "exit"
    if cmd == 0x06:
        return "onboard"
    return "other"
