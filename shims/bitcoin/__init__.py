"""Stand-in for python-bitcoinlib's ``bitcoin`` package (DESIGN 2.1).

Only the API surface that rsk-powhsm's middleware/comm/bitcoin.py uses is
provided.  Put first on sys.path inside check processes only.
"""
__verif_shim__ = True
