"""Stand-in for python-bitcoinlib's bitcoin.core (transactions, block headers)."""
import struct

from . import script
from .script import CScript
from .serialize import (  # noqa: F401
    Hash, MAX_SIZE, SerializationError, SerializationTruncationError,
    DeserializationExtraDataError, ser_read, Serializable, Serializer,
    VarIntSerializer, BytesSerializer, VectorSerializer)


class COutPoint(Serializable):
    __slots__ = ["hash", "n"]

    def __init__(self, hash=b"\x00" * 32, n=0xffffffff):
        if not len(hash) == 32:
            raise ValueError("COutPoint: hash must be exactly 32 bytes; got %d bytes"
                             % len(hash))
        self.hash = hash
        if not (0 <= n <= 0xffffffff):
            raise ValueError("COutPoint: n must be in range 0x0 to 0xffffffff; got %x" % n)
        self.n = n

    @classmethod
    def stream_deserialize(cls, f):
        hash = ser_read(f, 32)
        n = struct.unpack(b"<I", ser_read(f, 4))[0]
        return cls(hash, n)

    def stream_serialize(self, f):
        assert len(self.hash) == 32
        f.write(self.hash)
        f.write(struct.pack(b"<I", self.n))

    def is_null(self):
        return ((self.hash == b"\x00" * 32) and (self.n == 0xffffffff))


class CMutableOutPoint(COutPoint):
    __slots__ = []

    @classmethod
    def from_outpoint(cls, outpoint):
        return cls(outpoint.hash, outpoint.n)


class CTxIn(Serializable):
    __slots__ = ["prevout", "scriptSig", "nSequence"]

    def __init__(self, prevout=COutPoint(), scriptSig=CScript(), nSequence=0xffffffff):
        if not (0 <= nSequence <= 0xffffffff):
            raise ValueError("CTxIn: nSequence must be an integer between 0x0 and "
                             "0xffffffff; got %x" % nSequence)
        self.nSequence = nSequence
        self.prevout = prevout
        self.scriptSig = scriptSig

    @classmethod
    def stream_deserialize(cls, f):
        prevout = COutPoint.stream_deserialize(f)
        scriptSig = script.CScript(BytesSerializer.stream_deserialize(f))
        nSequence = struct.unpack(b"<I", ser_read(f, 4))[0]
        return cls(prevout, scriptSig, nSequence)

    def stream_serialize(self, f):
        COutPoint.stream_serialize(self.prevout, f)
        BytesSerializer.stream_serialize(self.scriptSig, f)
        f.write(struct.pack(b"<I", self.nSequence))

    def is_final(self):
        return (self.nSequence == 0xffffffff)

    @classmethod
    def from_txin(cls, txin):
        return cls(txin.prevout, txin.scriptSig, txin.nSequence)


class CMutableTxIn(CTxIn):
    __slots__ = []

    def __init__(self, prevout=None, scriptSig=CScript(), nSequence=0xffffffff):
        if not (0 <= nSequence <= 0xffffffff):
            raise ValueError("CTxIn: nSequence must be an integer between 0x0 and "
                             "0xffffffff; got %x" % nSequence)
        self.nSequence = nSequence
        if prevout is None:
            prevout = CMutableOutPoint()
        self.prevout = prevout
        self.scriptSig = scriptSig

    @classmethod
    def from_txin(cls, txin):
        prevout = CMutableOutPoint.from_outpoint(txin.prevout)
        return cls(prevout, txin.scriptSig, txin.nSequence)


class CTxOut(Serializable):
    __slots__ = ["nValue", "scriptPubKey"]

    def __init__(self, nValue=-1, scriptPubKey=script.CScript()):
        self.nValue = int(nValue)
        self.scriptPubKey = scriptPubKey

    @classmethod
    def stream_deserialize(cls, f):
        nValue = struct.unpack(b"<q", ser_read(f, 8))[0]
        scriptPubKey = script.CScript(BytesSerializer.stream_deserialize(f))
        return cls(nValue, scriptPubKey)

    def stream_serialize(self, f):
        f.write(struct.pack(b"<q", self.nValue))
        BytesSerializer.stream_serialize(self.scriptPubKey, f)

    def is_valid(self):
        return 0 <= self.nValue <= 21000000 * 100000000

    @classmethod
    def from_txout(cls, txout):
        return cls(txout.nValue, txout.scriptPubKey)


class CMutableTxOut(CTxOut):
    __slots__ = []


class CScriptWitness(Serializable):
    __slots__ = ["stack"]

    def __init__(self, stack=()):
        self.stack = tuple(stack)

    def __len__(self):
        return len(self.stack)

    def __iter__(self):
        return iter(self.stack)

    def is_null(self):
        return len(self.stack) == 0

    @classmethod
    def stream_deserialize(cls, f):
        n = VarIntSerializer.stream_deserialize(f)
        stack = tuple(BytesSerializer.stream_deserialize(f) for i in range(n))
        return cls(stack)

    def stream_serialize(self, f):
        VarIntSerializer.stream_serialize(len(self.stack), f)
        for s in self.stack:
            BytesSerializer.stream_serialize(s, f)


class CTxInWitness(Serializable):
    __slots__ = ["scriptWitness"]

    def __init__(self, scriptWitness=CScriptWitness()):
        self.scriptWitness = scriptWitness

    def is_null(self):
        return self.scriptWitness.is_null()

    @classmethod
    def stream_deserialize(cls, f):
        scriptWitness = CScriptWitness.stream_deserialize(f)
        return cls(scriptWitness)

    def stream_serialize(self, f):
        self.scriptWitness.stream_serialize(f)


class CTxWitness(Serializable):
    __slots__ = ["vtxinwit"]

    def __init__(self, vtxinwit=()):
        self.vtxinwit = tuple(vtxinwit)

    def is_null(self):
        for n in range(len(self.vtxinwit)):
            if not self.vtxinwit[n].is_null():
                return False
        return True

    def stream_deserialize(self, f):
        vtxinwit = tuple(CTxInWitness.stream_deserialize(f) for dummy in
                         range(len(self.vtxinwit)))
        return CTxWitness(vtxinwit)

    def stream_serialize(self, f):
        for i in range(len(self.vtxinwit)):
            self.vtxinwit[i].stream_serialize(f)


class CTransaction(Serializable):
    __slots__ = ["nVersion", "vin", "vout", "nLockTime", "wit"]

    def __init__(self, vin=(), vout=(), nLockTime=0, nVersion=1, witness=CTxWitness()):
        if not (0 <= nLockTime <= 0xffffffff):
            raise ValueError("CTransaction: nLockTime must be in range 0x0 to 0xffffffff; "
                             "got %x" % nLockTime)
        self.nLockTime = nLockTime
        self.nVersion = nVersion
        self.vin = tuple(vin)
        self.vout = tuple(vout)
        self.wit = witness

    @classmethod
    def stream_deserialize(cls, f):
        nVersion = struct.unpack(b"<i", ser_read(f, 4))[0]
        pos = f.tell()
        markerbyte = struct.unpack(b"B", ser_read(f, 1))[0]
        flagbyte = struct.unpack(b"B", ser_read(f, 1))[0]
        if markerbyte == 0 and flagbyte == 1:
            vin = VectorSerializer.stream_deserialize(CTxIn, f)
            vout = VectorSerializer.stream_deserialize(CTxOut, f)
            wit = CTxWitness(tuple(0 for dummy in range(len(vin))))
            wit = wit.stream_deserialize(f)
            nLockTime = struct.unpack(b"<I", ser_read(f, 4))[0]
            return cls(vin, vout, nLockTime, nVersion, wit)
        else:
            f.seek(pos)
            vin = VectorSerializer.stream_deserialize(CTxIn, f)
            vout = VectorSerializer.stream_deserialize(CTxOut, f)
            nLockTime = struct.unpack(b"<I", ser_read(f, 4))[0]
            return cls(vin, vout, nLockTime, nVersion)

    def stream_serialize(self, f, include_witness=True):
        f.write(struct.pack(b"<i", self.nVersion))
        if include_witness and not self.wit.is_null():
            assert (len(self.wit.vtxinwit) <= len(self.vin))
            f.write(b"\x00")
            f.write(b"\x01")
            VectorSerializer.stream_serialize(CTxIn, self.vin, f)
            VectorSerializer.stream_serialize(CTxOut, self.vout, f)
            self.wit.stream_serialize(f)
        else:
            VectorSerializer.stream_serialize(CTxIn, self.vin, f)
            VectorSerializer.stream_serialize(CTxOut, self.vout, f)
        f.write(struct.pack(b"<I", self.nLockTime))

    def is_coinbase(self):
        return len(self.vin) == 1 and self.vin[0].prevout.is_null()

    def has_witness(self):
        return not self.wit.is_null()

    @classmethod
    def from_tx(cls, tx):
        return cls(tx.vin, tx.vout, tx.nLockTime, tx.nVersion, tx.wit)

    def GetTxid(self):
        if not self.wit.is_null():
            txid = Hash(CTransaction(self.vin, self.vout, self.nLockTime,
                                     self.nVersion).serialize())
        else:
            txid = Hash(self.serialize())
        return txid


class CMutableTransaction(CTransaction):
    __slots__ = []

    def __init__(self, vin=None, vout=None, nLockTime=0, nVersion=1, witness=None):
        if not (0 <= nLockTime <= 0xffffffff):
            raise ValueError("CTransaction: nLockTime must be in range 0x0 to 0xffffffff; "
                             "got %x" % nLockTime)
        self.nLockTime = nLockTime
        if vin is None:
            vin = []
        self.vin = vin
        if vout is None:
            vout = []
        self.vout = vout
        self.nVersion = nVersion
        if witness is None:
            witness = CTxWitness([CTxInWitness() for dummy in range(len(vin))])
        self.wit = witness

    @classmethod
    def from_tx(cls, tx):
        vin = [CMutableTxIn.from_txin(txin) for txin in tx.vin]
        vout = [CMutableTxOut.from_txout(txout) for txout in tx.vout]
        return cls(vin, vout, tx.nLockTime, tx.nVersion, tx.wit)


class CBlockHeader(Serializable):
    __slots__ = ["nVersion", "hashPrevBlock", "hashMerkleRoot", "nTime", "nBits", "nNonce"]

    def __init__(self, nVersion=2, hashPrevBlock=b"\x00" * 32, hashMerkleRoot=b"\x00" * 32,
                 nTime=0, nBits=0, nNonce=0):
        self.nVersion = nVersion
        assert len(hashPrevBlock) == 32
        self.hashPrevBlock = hashPrevBlock
        assert len(hashMerkleRoot) == 32
        self.hashMerkleRoot = hashMerkleRoot
        self.nTime = nTime
        self.nBits = nBits
        self.nNonce = nNonce

    @classmethod
    def stream_deserialize(cls, f):
        nVersion = struct.unpack(b"<i", ser_read(f, 4))[0]
        hashPrevBlock = ser_read(f, 32)
        hashMerkleRoot = ser_read(f, 32)
        nTime = struct.unpack(b"<I", ser_read(f, 4))[0]
        nBits = struct.unpack(b"<I", ser_read(f, 4))[0]
        nNonce = struct.unpack(b"<I", ser_read(f, 4))[0]
        return cls(nVersion, hashPrevBlock, hashMerkleRoot, nTime, nBits, nNonce)

    def stream_serialize(self, f):
        f.write(struct.pack(b"<i", self.nVersion))
        assert len(self.hashPrevBlock) == 32
        f.write(self.hashPrevBlock)
        assert len(self.hashMerkleRoot) == 32
        f.write(self.hashMerkleRoot)
        f.write(struct.pack(b"<I", self.nTime))
        f.write(struct.pack(b"<I", self.nBits))
        f.write(struct.pack(b"<I", self.nNonce))
