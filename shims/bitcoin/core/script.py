"""CScript & SignatureHash, following python-bitcoinlib's bitcoin/core/script.py."""
import struct
from io import BytesIO

from .serialize import Hash, BytesSerializer

MAX_SCRIPT_SIZE = 10000
MAX_SCRIPT_ELEMENT_SIZE = 520

SIGHASH_ALL = 1
SIGHASH_NONE = 2
SIGHASH_SINGLE = 3
SIGHASH_ANYONECANPAY = 0x80

SIGVERSION_BASE = 0
SIGVERSION_WITNESS_V0 = 1


class CScriptOp(int):
    __slots__ = []

    @staticmethod
    def encode_op_pushdata(d):
        if len(d) < 0x4c:
            return b"" + bytes([len(d)]) + d
        elif len(d) <= 0xff:
            return b"\x4c" + bytes([len(d)]) + d
        elif len(d) <= 0xffff:
            return b"\x4d" + struct.pack(b"<H", len(d)) + d
        elif len(d) <= 0xffffffff:
            return b"\x4e" + struct.pack(b"<I", len(d)) + d
        else:
            raise ValueError("Data too long to encode in a PUSHDATA op")

    @staticmethod
    def encode_op_n(n):
        if not (0 <= n <= 16):
            raise ValueError("Integer must be in range 0 <= n <= 16, got %d" % n)
        if n == 0:
            return OP_0
        else:
            return CScriptOp(OP_1 + n - 1)

    def decode_op_n(self):
        if self == OP_0:
            return 0
        if not (self == OP_0 or OP_1 <= self <= OP_16):
            raise ValueError("op %r is not an OP_N" % self)
        return int(self - OP_1 + 1)

    def is_small_int(self):
        if 0x51 <= self <= 0x60 or self == 0:
            return True
        else:
            return False

    def __str__(self):
        return repr(self)

    def __repr__(self):
        return "CScriptOp(0x%x)" % int(self)


OP_0 = CScriptOp(0x00)
OP_FALSE = OP_0
OP_PUSHDATA1 = CScriptOp(0x4c)
OP_PUSHDATA2 = CScriptOp(0x4d)
OP_PUSHDATA4 = CScriptOp(0x4e)
OP_1NEGATE = CScriptOp(0x4f)
OP_RESERVED = CScriptOp(0x50)
OP_1 = CScriptOp(0x51)
OP_TRUE = OP_1
OP_16 = CScriptOp(0x60)
OP_CODESEPARATOR = CScriptOp(0xab)
OP_CHECKSIG = CScriptOp(0xac)
OP_CHECKMULTISIG = CScriptOp(0xae)


class CScriptInvalidError(Exception):
    pass


class CScriptTruncatedPushDataError(CScriptInvalidError):
    def __init__(self, msg, data):
        self.data = data
        super().__init__(msg)


def _bn2vch(v):
    """little-endian sign-magnitude encoding of an integer (bitcoin CScriptNum / bignum)"""
    if v == 0:
        return b""
    neg = v < 0
    a = abs(v)
    out = bytearray()
    while a:
        out.append(a & 0xff)
        a >>= 8
    if out[-1] & 0x80:
        out.append(0x80 if neg else 0x00)
    elif neg:
        out[-1] |= 0x80
    return bytes(out)


class CScript(bytes):
    @classmethod
    def __coerce_instance(cls, other):
        if isinstance(other, CScriptOp):
            other = bytes([other])
        elif isinstance(other, int):
            if 0 <= other <= 16:
                other = bytes([CScriptOp.encode_op_n(other)])
            elif other == -1:
                other = bytes([OP_1NEGATE])
            else:
                other = CScriptOp.encode_op_pushdata(_bn2vch(other))
        elif isinstance(other, (bytes, bytearray)):
            other = CScriptOp.encode_op_pushdata(other)
        return other

    def __add__(self, other):
        other = self.__coerce_instance(other)
        try:
            return CScript(super().__add__(other))
        except TypeError:
            raise TypeError("Can not add a %r instance to a CScript" % other.__class__)

    def join(self, iterable):
        raise NotImplementedError

    def __new__(cls, value=b""):
        if isinstance(value, bytes) or isinstance(value, bytearray):
            return super().__new__(cls, value)
        else:
            def coerce_iterable(iterable):
                for instance in iterable:
                    yield cls.__coerce_instance(instance)
            return super().__new__(cls, b"".join(coerce_iterable(value)))

    def raw_iter(self):
        i = 0
        while i < len(self):
            sop_idx = i
            opcode = self[i]
            i += 1

            if opcode > OP_PUSHDATA4:
                yield (opcode, None, sop_idx)
            else:
                datasize = None
                pushdata_type = None
                if opcode < OP_PUSHDATA1:
                    pushdata_type = "PUSHDATA(%d)" % opcode
                    datasize = opcode

                elif opcode == OP_PUSHDATA1:
                    pushdata_type = "PUSHDATA1"
                    if i >= len(self):
                        raise CScriptInvalidError("PUSHDATA1: missing data length")
                    datasize = self[i]
                    i += 1

                elif opcode == OP_PUSHDATA2:
                    pushdata_type = "PUSHDATA2"
                    if i + 1 >= len(self):
                        raise CScriptInvalidError("PUSHDATA2: missing data length")
                    datasize = self[i] + (self[i + 1] << 8)
                    i += 2

                elif opcode == OP_PUSHDATA4:
                    pushdata_type = "PUSHDATA4"
                    if i + 3 >= len(self):
                        raise CScriptInvalidError("PUSHDATA4: missing data length")
                    datasize = (self[i] + (self[i + 1] << 8) + (self[i + 2] << 16)
                                + (self[i + 3] << 24))
                    i += 4

                else:
                    assert False

                data = bytes(self[i:i + datasize])

                if len(data) < datasize:
                    raise CScriptTruncatedPushDataError("%s: truncated data" % pushdata_type,
                                                        data)

                i += datasize

                yield (opcode, data, sop_idx)

    def __iter__(self):
        for (opcode, data, sop_idx) in self.raw_iter():
            if opcode == 0:
                yield 0
            elif data is not None:
                yield data
            else:
                opcode = CScriptOp(opcode)

                if opcode.is_small_int():
                    yield opcode.decode_op_n()
                else:
                    yield CScriptOp(opcode)

    def __repr__(self):
        return "CScript(%s)" % bytes(self).hex()


def FindAndDelete(script, sig):
    r = b""
    last_sop_idx = sop_idx = 0
    skip = True
    for (opcode, data, sop_idx) in script.raw_iter():
        if not skip:
            r += script[last_sop_idx:sop_idx]
        last_sop_idx = sop_idx
        if script[sop_idx:sop_idx + len(sig)] == sig:
            skip = True
        else:
            skip = False
    if not skip:
        r += script[last_sop_idx:]
    return CScript(r)


def RawSignatureHash(script, txTo, inIdx, hashtype):
    from . import CMutableTransaction, CTxWitness
    HASH_ONE = b"\x01" + b"\x00" * 31

    if inIdx >= len(txTo.vin):
        return (HASH_ONE, "inIdx %d out of range (%d)" % (inIdx, len(txTo.vin)))
    txtmp = CMutableTransaction.from_tx(txTo)

    for txin in txtmp.vin:
        txin.scriptSig = b""
    txtmp.vin[inIdx].scriptSig = FindAndDelete(script, CScript([OP_CODESEPARATOR]))

    if (hashtype & 0x1f) == SIGHASH_NONE:
        txtmp.vout = []
        for i in range(len(txtmp.vin)):
            if i != inIdx:
                txtmp.vin[i].nSequence = 0
    elif (hashtype & 0x1f) == SIGHASH_SINGLE:
        raise NotImplementedError("SIGHASH_SINGLE not provided by the shim")
    if hashtype & SIGHASH_ANYONECANPAY:
        tmp = txtmp.vin[inIdx]
        txtmp.vin = [tmp]

    txtmp.wit = CTxWitness()
    s = txtmp.serialize()
    s += struct.pack(b"<i", hashtype)

    hash = Hash(s)
    return (hash, None)


def SignatureHash(script, txTo, inIdx, hashtype, amount=None, sigversion=SIGVERSION_BASE):
    if sigversion == SIGVERSION_WITNESS_V0:
        hashPrevouts = b"\x00" * 32
        hashSequence = b"\x00" * 32
        hashOutputs = b"\x00" * 32

        if not (hashtype & SIGHASH_ANYONECANPAY):
            serialize_prevouts = bytes()
            for i in txTo.vin:
                serialize_prevouts += i.prevout.serialize()
            hashPrevouts = Hash(serialize_prevouts)

        if (not (hashtype & SIGHASH_ANYONECANPAY) and (hashtype & 0x1f) != SIGHASH_SINGLE
                and (hashtype & 0x1f) != SIGHASH_NONE):
            serialize_sequence = bytes()
            for i in txTo.vin:
                serialize_sequence += struct.pack("<I", i.nSequence)
            hashSequence = Hash(serialize_sequence)

        if ((hashtype & 0x1f) != SIGHASH_SINGLE and (hashtype & 0x1f) != SIGHASH_NONE):
            serialize_outputs = bytes()
            for o in txTo.vout:
                serialize_outputs += o.serialize()
            hashOutputs = Hash(serialize_outputs)
        elif ((hashtype & 0x1f) == SIGHASH_SINGLE and inIdx < len(txTo.vout)):
            serialize_outputs = txTo.vout[inIdx].serialize()
            hashOutputs = Hash(serialize_outputs)

        f = BytesIO()
        f.write(struct.pack("<i", txTo.nVersion))
        f.write(hashPrevouts)
        f.write(hashSequence)
        txTo.vin[inIdx].prevout.stream_serialize(f)
        BytesSerializer.stream_serialize(script, f)
        f.write(struct.pack("<q", amount))
        f.write(struct.pack("<I", txTo.vin[inIdx].nSequence))
        f.write(hashOutputs)
        f.write(struct.pack("<i", txTo.nLockTime))
        f.write(struct.pack("<i", hashtype))

        return Hash(f.getvalue())

    assert not script.is_witness_scriptpubkey() if hasattr(script, "is_witness_scriptpubkey") else True

    (h, err) = RawSignatureHash(script, txTo, inIdx, hashtype)
    if err is not None:
        raise ValueError(err)
    return h
