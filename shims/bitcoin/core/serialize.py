"""Serialization primitives, following python-bitcoinlib's bitcoin/core/serialize.py."""
import hashlib
import struct
from io import BytesIO

MAX_SIZE = 0x02000000


def Hash(msg):
    return hashlib.sha256(hashlib.sha256(msg).digest()).digest()


class SerializationError(Exception):
    pass


class SerializationTruncationError(SerializationError):
    pass


class DeserializationExtraDataError(SerializationError):
    def __init__(self, msg, obj, padding):
        super().__init__(msg)
        self.obj = obj
        self.padding = padding


def ser_read(f, n):
    if n > MAX_SIZE:
        raise SerializationError("Asked to read 0x%x bytes; MAX_SIZE exceeded" % n)
    r = f.read(n)
    if len(r) < n:
        raise SerializationTruncationError("Asked to read %i bytes, but only got %i"
                                           % (n, len(r)))
    return r


class Serializable(object):
    __slots__ = []

    def stream_serialize(self, f):
        raise NotImplementedError

    @classmethod
    def stream_deserialize(cls, f):
        raise NotImplementedError

    def serialize(self, params={}):
        f = BytesIO()
        self.stream_serialize(f, **params)
        return f.getvalue()

    @classmethod
    def deserialize(cls, buf, allow_padding=False, params={}):
        fd = BytesIO(buf)
        r = cls.stream_deserialize(fd, **params)
        if not allow_padding:
            padding = fd.read()
            if len(padding) != 0:
                raise DeserializationExtraDataError(
                    "Not all bytes consumed during deserialization", r, padding)
        return r

    def GetHash(self):
        return Hash(self.serialize())

    def __eq__(self, other):
        if (not isinstance(other, self.__class__) and
                not isinstance(self, other.__class__)):
            return NotImplemented
        return self.serialize() == other.serialize()

    def __ne__(self, other):
        return not (self == other)

    def __hash__(self):
        return hash(self.serialize())


class Serializer(object):
    def __new__(cls):
        raise NotImplementedError

    @classmethod
    def serialize(cls, obj):
        f = BytesIO()
        cls.stream_serialize(obj, f)
        return f.getvalue()

    @classmethod
    def deserialize(cls, buf):
        return cls.stream_deserialize(BytesIO(buf))


class VarIntSerializer(Serializer):
    @classmethod
    def stream_serialize(cls, i, f):
        if i < 0:
            raise ValueError("varint must be non-negative integer")
        elif i < 0xfd:
            f.write(bytes([i]))
        elif i <= 0xffff:
            f.write(b"\xfd")
            f.write(struct.pack(b"<H", i))
        elif i <= 0xffffffff:
            f.write(b"\xfe")
            f.write(struct.pack(b"<I", i))
        else:
            f.write(b"\xff")
            f.write(struct.pack(b"<Q", i))

    @classmethod
    def stream_deserialize(cls, f):
        r = ser_read(f, 1)[0]
        if r < 0xfd:
            return r
        elif r == 0xfd:
            return struct.unpack(b"<H", ser_read(f, 2))[0]
        elif r == 0xfe:
            return struct.unpack(b"<I", ser_read(f, 4))[0]
        else:
            return struct.unpack(b"<Q", ser_read(f, 8))[0]


class BytesSerializer(Serializer):
    @classmethod
    def stream_serialize(cls, b, f):
        VarIntSerializer.stream_serialize(len(b), f)
        f.write(b)

    @classmethod
    def stream_deserialize(cls, f):
        ln = VarIntSerializer.stream_deserialize(f)
        return ser_read(f, ln)


class VectorSerializer(Serializer):
    @classmethod
    def stream_serialize(cls, inner_cls, objs, f):
        VarIntSerializer.stream_serialize(len(objs), f)
        for obj in objs:
            obj.stream_serialize(f)

    @classmethod
    def stream_deserialize(cls, inner_cls, f):
        n = VarIntSerializer.stream_deserialize(f)
        r = []
        for i in range(n):
            r.append(inner_cls.stream_deserialize(f))
        return r
